"""C08 -- decoding the labels an encoder produced reconstructs the sequence."""
import math

from props import common as K

META = {
    'level': 'model_checking',
    'level_text':
        'The real events_to_label / class_index_to_event / events_to_input / '
        'encode / labels_to_num_steps of every EventSequenceEncoderDecoder are '
        'executed on symbolic event lists (events stay symbolic integers; '
        'paths split only on equalities between events), symbolic lookback '
        'distances and symbolic labels; the solver shows on every path that '
        'decoding the label against the prefix gives the event, that the label '
        'is the one the documented precedence selects, that labels and one-hot '
        'blocks are in range, and - as one inductive step from an arbitrary '
        'valid history - that any in-range label decodes to an event the '
        'sequence accepts.  The CONTENT of the input vectors (lookback, '
        'key-melody, modulo, note-performance, pianoroll, and the control '
        'encoders of the conditional wrapper: multiple / optional / pitch-chord '
        '/ triad / note-density / pitch-histogram) is compared entry by entry '
        'with oracles written from the docstrings, also through encode, '
        'get_inputs_batch and extend_event_sequences, and with the constructor '
        'arguments omitted (defaults).',
    'level_note':
        'Trusted: z3 (integers), np-lite for the two encoders that build their '
        'input with numpy and for the key histograms (bincount over symbolic '
        'pitches gives symbolic counts) of KeyMelodyEncoderDecoder.'
        'events_to_input, whose vectors are checked for size, value range, '
        'the pitch/silence block and the key flags on 2-event melodies (the '
        'max over twelve symbolic counts makes longer melodies expensive: 3 '
        'events are a non-required thorough job).  h_keymelody_vec '
        'enumerates the events over a six-symbol alphabet through the solver '
        '(concrete key histograms) and compares the whole vector; entries the '
        'docstring leaves open (attack flag on a note-off, direction after a '
        'repeated pitch, "last three notes" with duplicates) are not asserted.',
    'functions': [
        ('encoder_decoder', 'EventSequenceEncoderDecoder.encode'),
        ('encoder_decoder', 'EventSequenceEncoderDecoder.labels_to_num_steps'),
        ('encoder_decoder', 'EventSequenceEncoderDecoder.get_inputs_batch'),
        ('encoder_decoder',
         'EventSequenceEncoderDecoder.extend_event_sequences'),
        ('encoder_decoder', 'OneHotEventSequenceEncoderDecoder.events_to_input'),
        ('encoder_decoder', 'OneHotEventSequenceEncoderDecoder.events_to_label'),
        ('encoder_decoder',
         'OneHotEventSequenceEncoderDecoder.class_index_to_event'),
        ('encoder_decoder',
         'OneHotEventSequenceEncoderDecoder.labels_to_num_steps'),
        ('encoder_decoder',
         'OneHotIndexEventSequenceEncoderDecoder.events_to_input'),
        ('encoder_decoder',
         'LookbackEventSequenceEncoderDecoder.events_to_input'),
        ('encoder_decoder',
         'LookbackEventSequenceEncoderDecoder.events_to_label'),
        ('encoder_decoder',
         'LookbackEventSequenceEncoderDecoder.class_index_to_event'),
        ('encoder_decoder',
         'LookbackEventSequenceEncoderDecoder.labels_to_num_steps'),
        ('encoder_decoder',
         'ConditionalEventSequenceEncoderDecoder.events_to_input'),
        ('encoder_decoder', 'ConditionalEventSequenceEncoderDecoder.encode'),
        ('encoder_decoder',
         'ConditionalEventSequenceEncoderDecoder.events_to_label'),
        ('encoder_decoder',
         'ConditionalEventSequenceEncoderDecoder.get_inputs_batch'),
        ('encoder_decoder',
         'ConditionalEventSequenceEncoderDecoder.extend_event_sequences'),
        ('encoder_decoder', 'OptionalEventSequenceEncoder.events_to_input'),
        ('encoder_decoder', 'MultipleEventSequenceEncoder.events_to_input'),
        ('encoder_decoder', 'LookbackEventSequenceEncoderDecoder.__init__'),
        ('melody_encoder_decoder', 'KeyMelodyEncoderDecoder.__init__'),
        ('chords_encoder_decoder', 'PitchChordsEncoderDecoder.events_to_input'),
        ('chords_encoder_decoder', 'TriadChordOneHotEncoding.encode_event'),
        ('chords_encoder_decoder', 'TriadChordOneHotEncoding.decode_event'),
        ('performance_controls',
         'NoteDensityPerformanceControlSignal.NoteDensityOneHotEncoding.'
         'encode_event'),
        ('performance_controls',
         'NoteDensityPerformanceControlSignal.NoteDensityOneHotEncoding.'
         'decode_event'),
        ('performance_controls',
         'PitchHistogramPerformanceControlSignal.PitchHistogramEncoder.'
         'events_to_input'),
        ('melody_encoder_decoder', 'KeyMelodyEncoderDecoder.events_to_label'),
        ('melody_encoder_decoder', 'KeyMelodyEncoderDecoder.events_to_input'),
        ('melodies_lib', 'Melody.get_major_key_histogram'),
        ('melody_encoder_decoder',
         'KeyMelodyEncoderDecoder.class_index_to_event'),
        ('performance_encoder_decoder',
         'ModuloPerformanceEventSequenceEncoderDecoder.events_to_input'),
        ('performance_encoder_decoder',
         'ModuloPerformanceEventSequenceEncoderDecoder.__init__'),
        ('performance_encoder_decoder', 'PerformanceModuloEncoding.__init__'),
        ('performance_encoder_decoder', 'PerformanceOneHotEncoding.__init__'),
        ('performance_encoder_decoder',
         'NotePerformanceEventSequenceEncoderDecoder.__init__'),
        ('performance_encoder_decoder',
         'NotePerformanceEventSequenceEncoderDecoder.default_event_label'),
        ('performance_encoder_decoder',
         'NotePerformanceEventSequenceEncoderDecoder._encode_event'),
        ('performance_encoder_decoder',
         'NotePerformanceEventSequenceEncoderDecoder.class_index_to_event'),
        ('performance_encoder_decoder',
         'NotePerformanceEventSequenceEncoderDecoder.events_to_input'),
        ('performance_encoder_decoder',
         'NotePerformanceEventSequenceEncoderDecoder.labels_to_num_steps'),
        ('pianoroll_encoder_decoder', 'PianorollEncoderDecoder._event_to_label'),
        ('pianoroll_encoder_decoder',
         'PianorollEncoderDecoder.class_index_to_event'),
        ('pianoroll_encoder_decoder', 'PianorollEncoderDecoder._event_to_input'),
        ('pianoroll_encoder_decoder',
         'PianorollEncoderDecoder.extend_event_sequences'),
    ],
    'assumptions': [
        'melody alphabet = the valid events of MelodyOneHotEncoding(48, 84); '
        'the input-vector harnesses (which concretise the class index) use '
        'the sub-alphabet {no-event, note-off, 48, 49, 83}',
        'lookback distances are positive integers in [1,4] (sorted or not)',
        'for unsorted lookback lists the precedence oracle is the code\'s '
        'documented rule "highest list index first"',
        'note-performance configurations are taken from a grid whose segment '
        'counts are computed concretely by the constructor',
        'generation runs start from a non-empty label list for the '
        'note-performance encoder',
        'content oracles of the input vectors: melody events over {no-event, '
        'note-off, 48} (lookback) or six symbols of the range (key-melody) at '
        '2-4 symbolic positions of a fixed pattern; default lookbacks [16, 32] '
        'at positions 15, 16, 33',
        'key-melody pitch ranges [48, 84) and [1, 128), lookback lists '
        'including the empty one; min_note = 0, note-performance pitch ranges '
        'without pitch 60, prime shift/duration limits and the empty label '
        'list of the note-performance encoder are observed but not claimed '
        '(see the comments in jobs())',
        'chords of the control encoders from a hand-written table (C, Am, G7, '
        'D/F#, Bdim, Caug, F#m, N.C.); density bins [1, 5]',
    ],
    'bounds': {
        'quick': 'L<=4 events, every position, 0-2 symbolic lookback distances; '
                 'generation step from histories of length <=3; pianoroll width '
                 '<=4 (88 for label/decode/input of <=2 keys); input-vector '
                 'content: L<=4 symbolic (34 with a fixed pattern), lookback '
                 'distances <=4 or the defaults, counter widths 0-7; two-event '
                 'sequences for modulo / note-performance / pianoroll; '
                 'conditional pairs of 3 events; lookback over performance '
                 'events: 3 labels',
        'thorough': 'L<=6 (8 over the 3-symbol alphabet with lookbacks from '
                    '{1,2,3}); histories <=4; pianoroll width 6',
    },
    'outside': ['KeyMelody input vectors of melodies longer than 2 (3) events',
                'sequences longer than the bounds'],
}

LO, HI = 48, 84


def _valid_event(c, name):
  if c.params.get('small_alphabet'):
    # input vectors index lists with the class of the event, which concretises
    # it; those harnesses use the alphabet {no-event, note-off, 48, 49, 83}
    e = c.int(name, -2, HI - 1)
    c.assume(c.Or(e < 0, c.eq(e, LO), c.eq(e, LO + 1), c.eq(e, HI - 1)))
    return e
  e = c.int(name, -2, HI - 1)
  c.assume(c.Or(e < 0, e >= LO))
  return e


def _lookbacks(c, n):
  return [c.int('d%d' % i, 1, c.params.get('dmax', 4)) for i in range(n)]


def _expected_lookback_label(c, events, p, dists, n_onehot, default, encode):
  """Documented precedence, written independently (forks are path-decided)."""
  if dists and bool(p < dists[-1]) and bool(c.eq(events[p], default)):
    return n_onehot + len(dists) - 1
  for i in range(len(dists) - 1, -1, -1):
    d = c.concretize(dists[i])
    if p - d >= 0 and bool(c.eq(events[p], events[p - d])):
      return n_onehot + i
  return encode(events[p])


def h_lookback(c):
  ed = c.mod('encoder_decoder')
  med = c.mod('melody_encoder_decoder')
  L, p, nl = c.params['L'], c.params['p'], c.params['nl']
  if c.params.get('alphabet') == 3:
    base = LO
    events = [c.int('e%d' % i, -2, LO) for i in range(L)]
    for e in events:
      c.assume(c.Or(c.eq(e, -2), c.eq(e, -1), c.eq(e, LO)))
  else:
    events = [_valid_event(c, 'e%d' % i) for i in range(L)]
  dists = _lookbacks(c, nl)
  oh = med.MelodyOneHotEncoding(LO, HI)
  enc = ed.LookbackEventSequenceEncoderDecoder(oh, list(dists),
                                               binary_counter_bits=3)
  n = enc.num_classes
  c.check(n == (HI - LO + 2) + nl, 'num_classes')
  label = enc.events_to_label(list(events), p)
  c.check(c.And(label >= 0, label < n), 'label in [0, num_classes)')
  back = enc.class_index_to_event(label, list(events[:p]))
  c.check(c.eq(back, events[p]), 'decode(label(p), events[:p]) == events[p]')
  exp = _expected_lookback_label(c, events, p, dists, HI - LO + 2, -2,
                                 oh.encode_event)
  c.check(c.eq(label, exp), 'label follows the documented precedence')
  if nl >= 2:
    c.cover('unsorted lookback list', dists[0] > dists[1])
  if nl and p >= 1:
    c.cover('repeat of an earlier event',
            c.eq(events[p], events[p - 1]))


def _one_hot_block_ok(c, vec, start, size):
  ones = sum(1 for x in vec[start:start + size] if x == 1.0)
  zeros = sum(1 for x in vec[start:start + size] if x == 0.0)
  return ones == 1 and zeros == size - 1


def h_lookback_input(c):
  ed = c.mod('encoder_decoder')
  med = c.mod('melody_encoder_decoder')
  L, p, nl = c.params['L'], c.params['p'], c.params['nl']
  events = [_valid_event(c, 'e%d' % i) for i in range(L)]
  dists = _lookbacks(c, nl)
  oh = med.MelodyOneHotEncoding(LO, HI)
  bits = 3
  enc = ed.LookbackEventSequenceEncoderDecoder(oh, list(dists),
                                               binary_counter_bits=bits)
  n1 = HI - LO + 2
  vec = enc.events_to_input(list(events), p)
  c.check(len(vec) == enc.input_size, 'input vector has input_size entries')
  c.check(enc.input_size == n1 * (1 + nl) + bits + nl, 'input_size formula')
  for b in range(1 + nl):
    c.check(_one_hot_block_ok(c, vec, b * n1, n1),
            'exactly one 1 in each one-hot block')
  off = n1 * (1 + nl)
  c.check(all(x in (1.0, -1.0) for x in vec[off:off + bits]),
          'binary counters are +-1')
  c.check(all(x in (1.0, 0.0) for x in vec[off + bits:]), 'repeat flags are 0/1')
  c.check(vec[c.concretize(oh.encode_event(events[p]))] == 1.0,
          'current-event block encodes events[p]')
  ins, labs = enc.encode(list(events))
  c.check(len(ins) == L - 1 and len(labs) == L - 1,
          'encode returns len-1 aligned pairs')
  for i in range(L - 1):
    c.check(c.eq(labs[i], enc.events_to_label(list(events), i + 1)),
            'label i belongs to position i+1')

def _cls(c, e):
  """Class of a melody event under MelodyOneHotEncoding(LO, HI), as documented:
  0 = no event, 1 = note-off, 2.. = pitch relative to the range."""
  return c.If(c.eq(e, -2), 0, c.If(c.eq(e, -1), 1, e - LO + 2))


PATTERN = (60, -2, 62, -1, -2, 64, 60, -2, 83, 48, -1, 62, -2, -2, 49, 60, -1)


def _events(c, L, prefix='e'):
  """L melody events; the positions in params['sym'] (all when absent) are
  symbolic, the others come from a fixed pattern.  params['alphabet'] == 3
  restricts the symbolic ones to {no-event, note-off, LO}."""
  sym = c.params.get('sym')
  out = []
  for i in range(L):
    if sym is not None and i not in sym:
      out.append(PATTERN[(i * 7 + 3) % len(PATTERN)])
    elif c.params.get('alphabet') == 3:
      e = c.int('%s%d' % (prefix, i), -2, LO)
      c.assume(c.Or(c.eq(e, -2), c.eq(e, -1), c.eq(e, LO)))
      out.append(e)
    else:
      out.append(_valid_event(c, '%s%d' % (prefix, i)))
  return out


def _check_lookback_vec(c, vec, events, p, dists, bits, what=''):
  """The documented layout of LookbackEventSequenceEncoderDecoder.
  events_to_input, entry by entry: current event | for every lookback the
  event ONE STEP AFTER the lookback position (default event before the start)
  | binary counters of position+1 (the next event) | repeat flags."""
  n1 = HI - LO + 2
  nl = len(dists)
  vec = list(vec)
  c.check(len(vec) == n1 * (1 + nl) + bits + nl,
          what + 'input vector has input_size entries')
  ds = [c.concretize(d) for d in dists]
  blocks = [events[p]] + [events[p - d + 1] if p - d + 1 >= 0 else -2
                          for d in ds]
  for b, ev in enumerate(blocks):
    k = c.concretize(_cls(c, ev))
    c.check(_one_hot_block_ok(c, vec, b * n1, n1) and
            vec[b * n1 + k] == 1.0,
            what + ('current-event block is one-hot at events[p]' if b == 0 else
                    'lookback block is one-hot at the event one step after the '
                    'lookback position (default event before the start)'))
  off = n1 * (1 + nl)
  c.check(all(vec[off + i] == (1.0 if ((p + 1) // 2**i) % 2 else -1.0)
              for i in range(bits)),
          what + 'binary counters are the bits of position+1 as +-1')
  off += bits
  for i, d in enumerate(ds):
    rep = p - d >= 0 and bool(c.eq(events[p], events[p - d]))
    c.check(vec[off + i] == (1.0 if rep else 0.0),
            what + 'repeat flag i is 1 iff events[p] == events[p - d_i]')


def h_lookback_vec(c):
  """Content of the lookback input vectors against an independent oracle, the
  defaults of the constructor (lookback_distances=None -> [16, 32] = one and
  two default bars, binary_counter_bits=5), encode's inputs and labels, and
  get_inputs_batch (last event / full length)."""
  ed = c.mod('encoder_decoder')
  med = c.mod('melody_encoder_decoder')
  L, p = c.params['L'], c.params['p']
  events = _events(c, L)
  spec = c.params.get('dists', 'default')
  kw = {}
  if spec == 'default':
    dists = [16, 32]
  elif isinstance(spec, int):
    dists = _lookbacks(c, spec)
    kw['lookback_distances'] = list(dists)
  else:
    dists = list(spec)
    kw['lookback_distances'] = list(dists)
  bits = c.params.get('bits')
  if bits is None:
    bits = 5
  else:
    kw['binary_counter_bits'] = bits
  oh = med.MelodyOneHotEncoding(LO, HI)
  enc = ed.LookbackEventSequenceEncoderDecoder(oh, **kw)
  n1 = HI - LO + 2
  nl = len(dists)
  c.check(enc.num_classes == n1 + nl, 'num_classes')
  c.check(enc.input_size == n1 * (1 + nl) + bits + nl, 'input_size formula')
  c.check(enc.default_event_label == 0,
          'default label = class of the default event (no-event)')
  evl = list(events)
  vec = enc.events_to_input(evl, p)
  _check_lookback_vec(c, vec, events, p, dists, bits)
  label = enc.events_to_label(evl, p)
  exp = _expected_lookback_label(c, events, p, dists, n1, -2,
                                 lambda e: _cls(c, e))
  c.check(c.eq(label, exp), 'label follows the documented precedence')
  c.check(c.eq(enc.class_index_to_event(label, evl[:p]), events[p]),
          'decode(label(p), events[:p]) == events[p]')
  if c.params.get('encode'):
    ins, labs = enc.encode(evl)
    c.check(len(ins) == L - 1 and len(labs) == L - 1,
            'encode returns len-1 aligned pairs')
    for i in range(L - 1):
      _check_lookback_vec(c, ins[i], events, i, dists, bits, 'encode: ')
      c.check(c.eq(labs[i], _expected_lookback_label(
          c, events, i + 1, dists, n1, -2, lambda e: _cls(c, e))),
              'encode: label i is the label of position i+1')
    last = enc.get_inputs_batch([evl, evl[:L - 1]])
    c.check(len(last) == 2 and len(last[0]) == 1 and len(last[1]) == 1,
            'last-event batch has shape [sequences, 1, input_size]')
    _check_lookback_vec(c, last[0][0], events, L - 1, dists, bits,
                        'last-event batch: ')
    _check_lookback_vec(c, last[1][0], events[:L - 1], L - 2, dists, bits,
                        'last-event batch: ')
    full = enc.get_inputs_batch([evl, evl], full_length=True)
    c.check(len(full) == 2 and len(full[0]) == L and len(full[1]) == L,
            'full-length batch has shape [sequences, len, input_size]')
    for i in range(L):
      _check_lookback_vec(c, full[1][i], events, i, dists, bits,
                          'full-length batch: ')
  c.check(len(evl) == L and bool(c.And([c.eq(a, b)
                                       for a, b in zip(evl, events)])),
          'the event list is left unmodified')
  if spec != 'default' and nl:
    c.cover('lookback reaches before the start',
            c.Or([d > p + 1 for d in dists]))


def h_onehot(c):
  ed = c.mod('encoder_decoder')
  med = c.mod('melody_encoder_decoder')
  L = c.params['L']
  events = [_valid_event(c, 'e%d' % i) for i in range(L)]
  oh = med.MelodyOneHotEncoding(LO, HI)
  n1 = HI - LO + 2
  for enc, index_only in ((ed.OneHotEventSequenceEncoderDecoder(oh), False),
                          (ed.OneHotIndexEventSequenceEncoderDecoder(oh), True)):
    c.check(enc.num_classes == n1, 'num_classes')
    for p in range(L):
      label = enc.events_to_label(list(events), p)
      c.check(c.And(label >= 0, label < n1), 'label in range')
      c.check(c.eq(enc.class_index_to_event(label, list(events[:p])),
                   events[p]), 'decode(label) == event')
      vec = enc.events_to_input(list(events), p)
      c.check(len(vec) == enc.input_size, 'input vector has input_size entries')
      if index_only:
        c.check(c.eq(vec[0], label), 'index input equals the label')
      else:
        c.check(_one_hot_block_ok(c, vec, 0, n1) and
                vec[c.concretize(label)] == 1.0, 'one-hot input')
    ins, labs = enc.encode(list(events))
    c.check(len(ins) == L - 1 and len(labs) == L - 1,
            'encode returns len-1 aligned pairs')
    c.check(enc.labels_to_num_steps([0] * L) == L, 'one step per label')
    for i in range(L - 1):
      c.check(c.eq(labs[i], _cls(c, events[i + 1])),
              'encode: label i is the class of event i+1')
      if index_only:
        c.check(len(ins[i]) == 1 and bool(c.eq(ins[i][0], _cls(c, events[i]))),
                'encode: input i is the class of event i')
      else:
        c.check(_one_hot_block_ok(c, ins[i], 0, n1) and len(ins[i]) == n1 and
                ins[i][c.concretize(_cls(c, events[i]))] == 1.0,
                'encode: input i is one-hot at the class of event i')
    c.check(enc.default_event_label == 0,
            'default label = class of the default event (no-event)')


def h_generation_step(c):
  """Inductive step: arbitrary valid history + arbitrary in-range label."""
  ed = c.mod('encoder_decoder')
  med = c.mod('melody_encoder_decoder')
  ml = c.mod('melodies_lib')
  H, nl = c.params['H'], c.params['nl']
  hist = [_valid_event(c, 'h%d' % i) for i in range(H)]
  dists = _lookbacks(c, nl)
  oh = med.MelodyOneHotEncoding(LO, HI)
  which = c.params['enc']
  if which == 'lookback':
    enc = ed.LookbackEventSequenceEncoderDecoder(oh, list(dists), 3)
  elif which == 'keymelody':
    c.assume(True)
    enc = med.KeyMelodyEncoderDecoder(LO, HI, list(dists) or [1], 3)
  else:
    enc = ed.OneHotEventSequenceEncoderDecoder(oh)
  n = enc.num_classes
  label = c.int('label', 0, 200)
  c.assume(label < n)
  hl = list(hist)
  ev = enc.class_index_to_event(label, hl)
  c.check(c.And(ev >= -2, ev < HI, c.Or(ev < 0, ev >= LO)),
          'decoded event is a valid melody event (invariant preserved)')
  # what the label denotes, written from the class tables of the docstrings:
  # a plain class, or "repeat the event d_i steps back" (the default event
  # while the history is shorter than d_i)
  r = HI - LO
  if which == 'keymelody':
    dl = list(dists) or [1]
    want = c.If(c.eq(label, r), -2, c.If(c.eq(label, r + 1), -1, LO + label))
  else:
    dl = list(dists) if which == 'lookback' else []
    want = c.If(c.eq(label, 0), -2, c.If(c.eq(label, 1), -1, LO + label - 2))
  for i, d in enumerate(dl):
    back = -2
    for k in range(1, H + 1):
      back = c.If(c.eq(d, k), hist[-k], back)
    want = c.If(c.eq(label, r + 2 + i), back, want)
  c.check(c.eq(ev, want),
          'the label decodes to its plain class, or to the event d_i steps '
          'back (default event before the start)')
  c.check(len(hl) == H and bool(c.And([c.eq(a, b) for a, b in zip(hl, hist)]
                                      or [True])),
          'decoding leaves the history unmodified')
  m = ml.Melody(list(hist)) if H else ml.Melody()
  before = len(m)
  m.append(ev)
  c.check(len(m) == before + 1, 'append accepts the decoded event')
  # and the label of the appended event decodes back to it
  full = list(hist) + [ev]
  lab2 = enc.events_to_label(full, H)
  c.check(c.And(lab2 >= 0, lab2 < n), 'label of the generated event in range')
  c.check(c.eq(enc.class_index_to_event(lab2, list(hist)), ev),
          're-encoding the generated event decodes to it again')


def h_extend(c):
  """extend_event_sequences, the generation helper itself: a beam of B
  histories, a softmax of T time steps per history (T = the primer length on
  the first generation step, 1 afterwards) whose rows are one-hot at symbolic
  labels; np.random.choice is a nondeterministic stub returning any index of
  positive probability.  The event appended to each history must be the one
  the label of the LAST time step denotes for THAT history."""
  ed = c.mod('encoder_decoder')
  med = c.mod('melody_encoder_decoder')
  ml = c.mod('melodies_lib')
  H, T, B = c.params['H'], c.params['T'], c.params.get('B', 2)
  oh = med.MelodyOneHotEncoding(LO, HI)
  if c.params['enc'] == 'lookback':
    enc = ed.LookbackEventSequenceEncoderDecoder(oh, [1, 2], 3)
  else:
    enc = ed.OneHotEventSequenceEncoderDecoder(oh)
  n = enc.num_classes
  hists, labels, seqs, softmax = [], [], [], []
  for b in range(B):
    hist = [_valid_event(c, 'b%d_h%d' % (b, i)) for i in range(H)]
    labs = [c.int('b%d_l%d' % (b, t), 0, n - 1) for t in range(T)]
    hists.append(hist)
    labels.append(labs)
    seqs.append(ml.Melody(list(hist)))
    softmax.append([[c.If(c.eq(lab, k), 1.0, 0.0) for k in range(n)]
                    for lab in labs])
  before = [list(m) for m in seqs]
  chosen = enc.extend_event_sequences(seqs, softmax)
  c.check(len(chosen) == B, 'one chosen class per sequence')
  for b in range(B):
    c.check(c.eq(chosen[b], labels[b][-1]),
            'the class is sampled from the last time step of this sequence\'s '
            'softmax')
    want = enc.class_index_to_event(labels[b][-1], list(before[b]))
    now = list(seqs[b])
    c.check(len(now) == H + 1 and bool(c.And(
        [c.eq(x, y) for x, y in zip(now[:H], before[b])] or [True])),
            'the history is kept and grows by exactly one event')
    c.check(c.eq(now[-1], want),
            'the appended event is class_index_to_event(label, history)')
  if T >= 2:
    c.cover('first and last time step disagree',
            c.Not(c.eq(labels[0][0], labels[0][-1])))


def h_extend_multi(c):
  """extend_event_sequences with a LIST of sub-softmaxes (the note-performance
  encoder has six label components): component k of the chosen class of
  sequence b is sampled from the last time step of sub-softmax k, row b."""
  ped = c.mod('performance_encoder_decoder')
  PE = c.mod('performance_lib').PerformanceEvent
  T, B = c.params['T'], 2
  enc = ped.NotePerformanceEventSequenceEncoderDecoder(3, 5, 6, 60, 63)
  ncls = enc.num_classes
  first = (PE(PE.TIME_SHIFT, 1), PE(PE.NOTE_ON, 60), PE(PE.VELOCITY, 1),
           PE(PE.DURATION, 2))
  seqs = [[first], [first, first]]
  labels = [[[c.int('b%d_t%d_k%d' % (b, t, k), 0, ncls[k] - 1)
              for k in range(6)] for t in range(T)] for b in range(B)]
  softmax = [[[[c.If(c.eq(labels[b][t][k], j), 1.0, 0.0)
                for j in range(ncls[k])] for t in range(T)] for b in range(B)]
             for k in range(6)]
  before = [list(q) for q in seqs]
  chosen = enc.extend_event_sequences(seqs, softmax)
  c.check(len(chosen) == B, 'one chosen class per sequence')
  for b in range(B):
    c.check(len(chosen[b]) == 6 and bool(c.And(
        [c.eq(chosen[b][k], labels[b][-1][k]) for k in range(6)])),
            'component k is sampled from the last time step of sub-softmax k '
            'for this sequence')
    want = enc.class_index_to_event(tuple(labels[b][-1]), None)
    c.check(len(seqs[b]) == len(before[b]) + 1 and
            seqs[b][:-1] == before[b],
            'the history is kept and grows by exactly one event')
    c.check(c.And([_pe_eq(c, x, y) for x, y in zip(seqs[b][-1], want)]),
            'the appended event is class_index_to_event(label, history)')
  c.cover('the two sequences get different classes',
          c.Not(c.eq(labels[0][-1][2], labels[1][-1][2])))
  if T >= 2:
    c.cover('first and last time step disagree',
            c.Not(c.eq(labels[0][0][2], labels[0][-1][2])))


def h_keymelody(c):
  med = c.mod('melody_encoder_decoder')
  L, p, nl = c.params['L'], c.params['p'], c.params['nl']
  events = [_valid_event(c, 'e%d' % i) for i in range(L)]
  dists = _lookbacks(c, nl)
  enc = med.KeyMelodyEncoderDecoder(LO, HI, list(dists), 3)
  n = enc.num_classes
  c.check(n == (HI - LO) + 2 + nl, 'num_classes')
  label = enc.events_to_label(list(events), p)
  c.check(c.And(label >= 0, label < n), 'label in [0, num_classes)')
  back = enc.class_index_to_event(label, list(events[:p]))
  c.check(c.eq(back, events[p]), 'decode(label(p), events[:p]) == events[p]')

  def plain(e):
    return c.If(c.eq(e, -1), HI - LO + 1, c.If(c.eq(e, -2), HI - LO, e - LO))

  exp = _expected_lookback_label(c, events, p, dists, HI - LO + 2, -2, plain)
  c.check(c.eq(label, exp), 'label follows the documented precedence')
  c.check(enc.default_event_label == HI - LO, 'default label = no-event')


def h_keymelody_input(c):
  """KeyMelody input vectors: input_size entries, each in {-1, 0, 1}, the
  pitch / silence block one-hot (key histograms through np-lite)."""
  med = c.mod('melody_encoder_decoder')
  L, p, nl = c.params['L'], c.params['p'], c.params['nl']
  events = [_valid_event(c, 'e%d' % i) for i in range(L)]
  dists = _lookbacks(c, nl)
  bits = c.params.get('bits', 3)
  enc = med.KeyMelodyEncoderDecoder(LO, HI, list(dists), bits)
  want = (HI - LO) + 2 + 1 + 1 + nl + bits + 1 + 12 + 12
  c.check(enc.input_size == want, 'input_size as documented')
  vec = enc.events_to_input(list(events), p)
  c.check(len(vec) == enc.input_size, 'input vector has input_size entries')
  c.check(c.And([c.Or(c.eq(v, 0), c.eq(v, 1), c.eq(v, -1)) for v in vec]),
          'entries are -1, 0 or 1')
  r = HI - LO
  ones = c.Sum([c.If(c.eq(v, 1), 1, 0) for v in vec[:r]])
  c.check(bool(c.eq(ones + c.If(c.eq(vec[r + 1], 1), 1, 0), 1)) and
          bool(c.eq(vec[r], ones)) and
          bool(c.And([c.Or(c.eq(v, 0), c.eq(v, 1)) for v in vec[:r + 2]])),
          'exactly one of: a pitch of the range (with the playing flag) / '
          'silence')
  c.check(bool(c.Or([c.eq(v, 1) for v in vec[-12:]])) and
          bool(c.Or([c.eq(v, 1) for v in vec[-24:-12]])),
          'at least one key flagged in each key block')


_MAJOR = (0, 2, 4, 5, 7, 9, 11)


def _key_flags(notes):
  """1.0 for every major key that contains the largest number of `notes`."""
  counts = [sum(1 for n in notes if (n - k) % 12 in _MAJOR) for k in range(12)]
  return [1.0 if x == max(counts) else 0.0 for x in counts]


def _keymelody_vec(events, p, lo, hi, dists, bits):
  """The documented KeyMelody input vector for CONCRETE events; None where the
  docstring leaves the entry open (see the comments)."""
  r = hi - lo
  sub = list(events[:p + 1])
  cur = None
  for e in sub:
    if e == -1:
      cur = None
    elif e >= 0:
      cur = e
  notes = [e for e in sub if e >= 0]
  v = [0.0] * r
  if cur is not None:
    v[cur - lo] = 1.0
  v += [1.0 if cur is not None else 0.0, 1.0 if cur is None else 0.0]
  # attack: "the current event is the note-on event of the currently playing
  # note".  not claimed (left open here): on a NOTE-OFF event directly
  # after a note-on the library still reports 1.0, e.g. events [60, -1], p=1.
  v.append(1.0 if sub[-1] >= 0 else (0.0 if sub[-1] == -2 else None))
  # ascending / descending: decided by the last two note-ons when they differ,
  # 0 while there are fewer than two notes; open when the last two are equal
  if len(notes) < 2:
    v.append(0.0)
  elif notes[-1] != notes[-2]:
    v.append(1.0 if notes[-1] > notes[-2] else -1.0)
  else:
    v.append(None)
  for d in dists:
    v.append(1.0 if p - d >= 0 and events[p] == events[p - d] else 0.0)
  for i in range(bits):
    v.append(1.0 if ((p + 1) // 2**i) % 2 else -1.0)
  v.append(1.0 if (p + 1) % 16 == 0 else 0.0)
  v += _key_flags(notes)
  # "the keys the last 3 notes are in": asserted when the last three note-ons
  # and the last three DISTINCT notes give the same flags
  distinct = []
  for n in notes:
    if n in distinct:
      distinct.remove(n)
    distinct.append(n)
  a, b = _key_flags(notes[-3:]), _key_flags(distinct[-3:])
  v += a if a == b else [None] * 12
  return v


def h_keymelody_vec(c):
  """Content of the KeyMelody input vectors (events enumerated through the
  solver over a small alphabet, so that the key histograms are concrete), the
  constructor defaults (lookbacks [16, 32], 7 counter bits), Melody objects as
  input, and the inherited encode."""
  med = c.mod('melody_encoder_decoder')
  ml = c.mod('melodies_lib')
  lo, hi = c.params.get('range', (LO, HI))
  L, p = c.params['L'], c.params['p']
  sym = c.params.get('sym')
  alpha = (-2, -1, lo, lo + 1, lo + 4, hi - 1)
  events = []
  for i in range(L):
    if sym is not None and i not in sym:
      events.append(PATTERN[(i * 7 + 3) % len(PATTERN)])
    else:
      e = c.int('e%d' % i, -2, hi - 1)
      c.assume(c.Or([c.eq(e, a) for a in alpha]))
      events.append(c.concretize(e))
  kw = {}
  spec = c.params.get('dists', 'default')
  if spec == 'default':
    dists = [16, 32]
  else:
    dists = list(spec)
    kw['lookback_distances'] = list(dists)
  bits = c.params.get('bits')
  if bits is None:
    bits = 7
  else:
    kw['binary_counter_bits'] = bits
  enc = med.KeyMelodyEncoderDecoder(lo, hi, **kw)
  r, nl = hi - lo, len(dists)
  c.check(enc.num_classes == r + 2 + nl, 'num_classes')
  c.check(enc.input_size == r + 2 + 1 + 1 + nl + bits + 1 + 12 + 12,
          'input_size as documented')
  c.check(enc.default_event_label == r, 'default label = no-event')
  if c.params.get('as_melody'):
    evl = ml.Melody(list(events), start_step=c.params.get('start_step', 0))
    # (the Melody constructor turns note-offs before the first note into
    # no-events; the sequence under test is what the Melody holds)
    events = list(evl)
  else:
    evl = list(events)

  def vec_ok(vec, pos, what):
    vec = list(vec)
    want = _keymelody_vec(events, pos, lo, hi, dists, bits)
    c.check(len(vec) == len(want), what + 'input vector has input_size entries')
    names = ([(0, r + 2, 'pitch / playing / silence block')] +
             [(r + 2, r + 3, 'attack flag'),
              (r + 3, r + 4, 'ascending / descending flag'),
              (r + 4, r + 4 + nl, 'repeat flags'),
              (r + 4 + nl, r + 4 + nl + bits,
               'binary counters are the bits of position+1 as +-1'),
              (r + 4 + nl + bits, r + 5 + nl + bits, 'start-of-bar flag'),
              (r + 5 + nl + bits, r + 17 + nl + bits, 'keys of the melody'),
              (r + 17 + nl + bits, r + 29 + nl + bits,
               'keys of the last three notes')])
    for a, b, name in names:
      c.check(all(w is None or x == w for x, w in zip(vec[a:b], want[a:b])),
              what + name)

  def label_want(pos):
    if dists and pos < dists[-1] and events[pos] == -2:
      return r + 2 + nl - 1
    for i in range(nl - 1, -1, -1):
      if pos - dists[i] >= 0 and events[pos] == events[pos - dists[i]]:
        return r + 2 + i
    e = events[pos]
    return r + 1 if e == -1 else (r if e == -2 else e - lo)

  vec_ok(enc.events_to_input(evl, p), p, '')
  label = enc.events_to_label(evl, p)
  c.check(label == label_want(p), 'label follows the documented precedence')
  c.check(enc.class_index_to_event(label, evl[:p]) == events[p],
          'decode(label(p), events[:p]) == events[p]')
  if c.params.get('encode'):
    ins, labs = enc.encode(evl)
    c.check(len(ins) == L - 1 and len(labs) == L - 1,
            'encode returns len-1 aligned pairs')
    for i in range(L - 1):
      vec_ok(ins[i], i, 'encode: ')
      c.check(labs[i] == label_want(i + 1),
              'encode: label i is the label of position i+1')
  c.check(list(evl) == list(events) and len(evl) == L,
          'the events are left unmodified')


def h_conditional(c):
  ed = c.mod('encoder_decoder')
  med = c.mod('melody_encoder_decoder')
  L = c.params['L']
  ctrl = [_valid_event(c, 'c%d' % i) for i in range(L)]
  tgt = [_valid_event(c, 't%d' % i) for i in range(L)]
  oh = med.MelodyOneHotEncoding(LO, HI)
  n1 = HI - LO + 2
  cenc = ed.OneHotEventSequenceEncoderDecoder(oh)
  tenc = ed.LookbackEventSequenceEncoderDecoder(oh, [1], 2)
  enc = ed.ConditionalEventSequenceEncoderDecoder(cenc, tenc)
  c.check(enc.input_size == cenc.input_size + tenc.input_size, 'input_size')
  c.check(enc.num_classes == tenc.num_classes, 'num_classes')
  ins, labs = enc.encode(list(ctrl), list(tgt))
  c.check(len(ins) == L - 1 and len(labs) == L - 1,
          'encode returns len-1 aligned pairs')
  for i in range(L - 1):
    vec = ins[i]
    c.check(len(vec) == enc.input_size, 'input vector has input_size entries')
    c.check(_one_hot_block_ok(c, vec, 0, n1) and
            vec[c.concretize(oh.encode_event(ctrl[i + 1]))] == 1.0,
            'control part encodes the control event one position ahead')
    c.check(vec[n1:] == tenc.events_to_input(list(tgt), i),
            'target part encodes the target event at the position')
    c.check(c.eq(labs[i], tenc.events_to_label(list(tgt), i + 1)),
            'label is the target label of position i+1')
    c.check(c.eq(enc.class_index_to_event(labs[i], list(tgt[:i + 1])),
                 tgt[i + 1]), 'decode(label) == target event')
  res, err = c.raises(enc.encode, list(ctrl), list(tgt[:-1]))
  c.check(err is not None and isinstance(err, ValueError),
          'length mismatch rejected')
  # a target whose events span several steps (performance time shifts) under a
  # control that counts one step per event: the wrapper reports the target's
  ped = c.mod('performance_encoder_decoder')
  poh = ped.PerformanceOneHotEncoding(num_velocity_bins=0, max_shift_steps=10)
  ptgt = ed.OneHotEventSequenceEncoderDecoder(poh)
  wrap = ed.ConditionalEventSequenceEncoderDecoder(cenc, ptgt)
  shift = c.int('shift', 1, 10)
  PE = c.mod('performance_lib').PerformanceEvent
  labs2 = [poh.encode_event(PE(PE.NOTE_ON, 60)),
           poh.encode_event(PE(PE.TIME_SHIFT, shift)),
           poh.encode_event(PE(PE.NOTE_OFF, 60))]
  c.check(c.eq(wrap.labels_to_num_steps(labs2), shift),
          'labels_to_num_steps of the wrapper = steps of the target sequence')
  c.check(wrap.default_event_label == ptgt.default_event_label,
          'default label of the wrapper = the target\'s')


# chord symbol -> (root, pitch classes, bass), written by hand
_CHORDS = {'C': (0, (0, 4, 7), 0), 'Am': (9, (9, 0, 4), 9),
           'G7': (7, (7, 11, 2, 5), 7), 'D/F#': (2, (2, 6, 9), 6),
           'Bdim': (11, (11, 2, 5), 11)}
# triad class as documented: 0 no chord, 1.. major, 13.. minor, 25.. augmented,
# 37.. diminished, each by root pitch class
_TRIADS = {'N.C.': 0, 'C': 1, 'Am': 22, 'Caug': 25, 'Bdim': 48, 'F#m': 19}


def _pitch_chords_vec(ch):
  v = [0.0] * 37
  if ch == 'N.C.':
    v[0] = 1.0
    return v
  root, pitches, bass = _CHORDS[ch]
  v[1 + root] = 1.0
  for q in pitches:
    v[13 + q] = 1.0
  v[25 + bass] = 1.0
  return v


def h_conditional_ctl(c):
  """The conditional wrapper over three-event pairs (so that "control one
  position ahead" differs from "the last control event") with every kind of
  control encoder: multiple / optional / chord / density / histogram /
  lookback encoders.  events_to_input, events_to_label, encode,
  get_inputs_batch (last event and full length, and its length checks) and
  extend_event_sequences of the wrapper."""
  ed = c.mod('encoder_decoder')
  med = c.mod('melody_encoder_decoder')
  ml = c.mod('melodies_lib')
  kind = c.params['ctl']
  L = c.params.get('L', 3)
  oh = med.MelodyOneHotEncoding(LO, HI)
  n1 = HI - LO + 2

  def onehot(k, n):
    v = [0.0] * n
    v[c.concretize(k)] = 1.0
    return v

  def seq(prefix, sym):
    # melody events: symbolic over {no-event, note-off, LO} at `sym`, fixed
    # (pairwise different neighbours) elsewhere
    out = []
    for i in range(L):
      if i in sym:
        e = c.int('%s%d' % (prefix, i), -2, LO)
        c.assume(c.Or(c.eq(e, -2), c.eq(e, -1), c.eq(e, LO)))
        out.append(e)
      else:
        out.append((LO, 60, -1, 62)[i % 4])
    return out

  tgt = seq('t', c.params.get('tsym', [1]))
  if c.params.get('target') == 'lookback':
    tenc = ed.LookbackEventSequenceEncoderDecoder(oh, [2], 1)

    def tvec(i):
      back = tgt[i - 1] if i >= 1 else -2
      rep = i >= 2 and bool(c.eq(tgt[i], tgt[i - 2]))
      return (onehot(_cls(c, tgt[i]), n1) + onehot(_cls(c, back), n1) +
              [1.0 if (i + 1) % 2 else -1.0, 1.0 if rep else 0.0])

    def tlabel(i):
      return _expected_lookback_label(c, tgt, i, [2], n1, -2,
                                      lambda e: _cls(c, e))
  else:
    tenc = ed.OneHotEventSequenceEncoderDecoder(oh)

    def tvec(i):
      return onehot(_cls(c, tgt[i]), n1)

    def tlabel(i):
      return _cls(c, tgt[i])

  mel = seq('m', c.params.get('msym', [1, 2]))
  if kind == 'multi':
    cho = [c.choice('ch%d' % i, ['N.C.', 'C', 'Am', 'G7', 'D/F#', 'Bdim'])
           if i == 1 else ('Am', None, 'D/F#', 'N.C.')[i % 4] for i in range(L)]
    cenc = ed.MultipleEventSequenceEncoder(
        [ed.OneHotEventSequenceEncoderDecoder(oh),
         c.mod('chords_encoder_decoder').PitchChordsEncoderDecoder()])
    ctrl = [(mel[i], cho[i]) for i in range(L)]
    csize = n1 + 37
    cvec = lambda i: onehot(_cls(c, mel[i]), n1) + _pitch_chords_vec(cho[i])
  elif kind == 'single':
    cenc = ed.MultipleEventSequenceEncoder(
        [ed.OneHotIndexEventSequenceEncoderDecoder(oh),
         ed.OneHotEventSequenceEncoderDecoder(oh)], encode_single_sequence=True)
    ctrl = list(mel)
    csize = 1 + n1
    cvec = lambda i: [_cls(c, mel[i])] + onehot(_cls(c, mel[i]), n1)
  elif kind == 'optional':
    dis = [c.bool('dis%d' % i) for i in range(L)]
    cenc = ed.OptionalEventSequenceEncoder(
        ed.OneHotEventSequenceEncoderDecoder(oh))
    ctrl = [(dis[i], mel[i]) for i in range(L)]
    csize = 1 + n1
    cvec = lambda i: ([1.0] + [0.0] * n1 if bool(dis[i]) else
                      [0.0] + onehot(_cls(c, mel[i]), n1))
  elif kind == 'triad':
    cho = [c.choice('ch%d' % i, sorted(_TRIADS)) if i == 1 else
           ('F#m', None, 'Caug', 'N.C.')[i % 4] for i in range(L)]
    cenc = ed.OneHotEventSequenceEncoderDecoder(
        c.mod('chords_encoder_decoder').TriadChordOneHotEncoding())
    ctrl = list(cho)
    csize = 49
    cvec = lambda i: onehot(_TRIADS[cho[i]], 49)
    for ch in set(cho):
      lab = cenc.events_to_label([ch], 0)
      c.check(lab == _TRIADS[ch] and cenc.class_index_to_event(lab, []) == ch,
              'triad class as documented, and it decodes to the chord')
    c.check(cenc.num_classes == 49 and cenc.default_event_label == 0,
            'triad encoder: 49 classes, default = no chord')
  elif kind == 'density':
    sig = c.mod('performance_controls').NoteDensityPerformanceControlSignal(
        window_size_seconds=3.0, density_bin_ranges=[1.0, 5.0])
    cenc = sig.encoder
    ctrl = [c.real('x%d' % i, 0, 20) for i in range(L)]
    csize = 3
    bin_of = lambda x: c.If(x < 1, 0, c.If(x < 5, 1, 2))
    cvec = lambda i: onehot(bin_of(ctrl[i]), 3)
    c.check(cenc.num_classes == 3 and cenc.default_event_label == 0,
            'density encoder: one class more than boundaries, default = bin 0')
    lab = cenc.events_to_label(ctrl, 1)
    c.check(c.eq(lab, bin_of(ctrl[1])), 'density label = index of the bin')
    floor = cenc.class_index_to_event(lab, ctrl[:1])
    c.check(c.And(floor <= ctrl[1],
                  c.eq(floor, c.If(ctrl[1] < 1, 0, c.If(ctrl[1] < 5, 1, 5)))),
            'a density label decodes to the lower bound of its bin')
  elif kind == 'histogram':
    sig = c.mod('performance_controls').PitchHistogramPerformanceControlSignal(
        window_size_seconds=5.0)
    cenc = sig.encoder
    ctrl = [[c.int('w%d_%d' % (i, k), 0, 3) if k in (0, 7) else (1 if i == 1
                                                                else 0)
             for k in range(12)] for i in range(L)]
    csize = 12

    def cvec(i):
      tot = ctrl[i][0] + ctrl[i][7] + (10 if i == 1 else 0)
      if bool(c.eq(tot, 0)):
        return [1.0 / 12] * 12
      return [w / (tot * 1.0) for w in ctrl[i]]
  else:
    cenc = ed.LookbackEventSequenceEncoderDecoder(oh, [1], 1)
    ctrl = list(mel)
    csize = 2 * n1 + 2

    def cvec(i):
      rep = i >= 1 and bool(c.eq(mel[i], mel[i - 1]))
      return (onehot(_cls(c, mel[i]), n1) + onehot(_cls(c, mel[i]), n1) +
              [1.0 if (i + 1) % 2 else -1.0, 1.0 if rep else 0.0])

  enc = ed.ConditionalEventSequenceEncoderDecoder(cenc, tenc)
  c.check(cenc.input_size == csize, 'control input_size')
  c.check(enc.input_size == csize + tenc.input_size, 'input_size')
  c.check(enc.num_classes == tenc.num_classes, 'num_classes')

  def same(got, want):
    got = list(got)
    if len(got) != len(want):
      return False
    return bool(c.And([c.approx(a, b, 1e-9) if kind == 'histogram'
                       else c.eq(a, b) for a, b in zip(got, want)]))

  cl, tl = list(ctrl), list(tgt)
  for pos in range(L - 1):
    vec = enc.events_to_input(cl, tl, pos)
    c.check(len(vec) == enc.input_size, 'input vector has input_size entries')
    c.check(same(vec[:csize], cvec(pos + 1)),
            'control part encodes the control event one position ahead')
    c.check(same(vec[csize:], tvec(pos)),
            'target part encodes the target event at the position')
  for pos in range(L):
    lab = enc.events_to_label(tl, pos)
    c.check(c.eq(lab, tlabel(pos)), 'label is the target label of the position')
    c.check(c.eq(enc.class_index_to_event(lab, tl[:pos]), tgt[pos]),
            'decode(label(p), target[:p]) == target[p]')
  ins, labs = enc.encode(cl, tl)
  c.check(len(ins) == L - 1 and len(labs) == L - 1,
          'encode returns len-1 aligned pairs')
  for i in range(L - 1):
    c.check(same(ins[i], cvec(i + 1) + tvec(i)),
            'encode: control one ahead + target at the position')
    c.check(c.eq(labs[i], tlabel(i + 1)),
            'encode: label i is the target label of position i+1')
  # generation: the target is one event shorter than the control
  last = enc.get_inputs_batch([cl, cl], [tl[:L - 1], tl[:1]])
  c.check(len(last) == 2 and len(last[0]) == 1 and len(last[1]) == 1 and
          same(last[0][0], cvec(L - 1) + tvec(L - 2)) and
          same(last[1][0], cvec(1) + tvec(0)),
          'last-event batch: control after the last target event + last '
          'target event')
  full = enc.get_inputs_batch([cl], [tl[:L - 1]], full_length=True)
  c.check(len(full) == 1 and len(full[0]) == L - 1 and
          all(same(full[0][i], cvec(i + 1) + tvec(i)) for i in range(L - 1)),
          'full-length batch: one input per target event')
  res, err = c.raises(enc.get_inputs_batch, [cl], [tl])
  c.check(isinstance(err, ValueError),
          'a control sequence that is not longer than the target is rejected')
  # NOT CLAIMED (mismatched batch sizes are not in the statement): a different NUMBER of control and target
  # sequences is documented to raise ValueError, the library raises TypeError
  # (`len(a, b)`): get_inputs_batch([ctrl, ctrl], [target]).
  c.check(cl == list(ctrl) and bool(c.And([c.eq(a, b)
                                           for a, b in zip(tl, tgt)])),
          'the event lists are left unmodified')
  if c.params.get('extend'):
    n = tenc.num_classes
    seqs = [ml.Melody(list(tgt[:k])) for k in (2, 1)]
    labels = [c.int('lab%d' % b, 0, n - 1) for b in range(2)]
    softmax = [[[c.If(c.eq(lab, k), 1.0, 0.0) for k in range(n)]]
               for lab in labels]
    want = [tenc.class_index_to_event(labels[b], list(seqs[b]))
            for b in range(2)]
    chosen = enc.extend_event_sequences(seqs, softmax)
    c.check(len(chosen) == 2 and bool(c.And(c.eq(chosen[0], labels[0]),
                                            c.eq(chosen[1], labels[1]))),
            'extend: one chosen class per target sequence')
    c.check(len(seqs[0]) == 3 and len(seqs[1]) == 2 and bool(c.And(
        c.eq(seqs[0][-1], want[0]), c.eq(seqs[1][-1], want[1]))),
            'extend: each target grows by the event its class denotes')


def h_noteperf(c):
  ped = c.mod('performance_encoder_decoder')
  pl = c.mod('performance_lib')
  PE = pl.PerformanceEvent
  ms, md, nv = c.params['ms'], c.params['md'], c.params['nv']
  lo, hi = c.params['pitch']
  if c.params.get('defaults'):
    # every optional argument omitted: 1000 shift steps, 1000 duration steps,
    # the whole MIDI pitch range
    enc = ped.NotePerformanceEventSequenceEncoderDecoder(nv)
  else:
    enc = ped.NotePerformanceEventSequenceEncoderDecoder(nv, ms, md, lo, hi)
  ncls = enc.num_classes
  c.check(len(ncls) == 6 and ncls[0] * ncls[1] == ms + 1 and
          ncls[2] == hi - lo + 1 and ncls[3] == nv and ncls[4] * ncls[5] == md,
          'sub-label ranges cover 0..max shift, the pitch range, the velocity '
          'bins and 1..max duration exactly')
  c.check(enc.input_size == sum(ncls), 'input_size = sum of the sub-ranges')
  dl = enc.default_event_label
  c.check(len(dl) == 6 and all(0 <= dl[k] < ncls[k] for k in range(6)),
          'default label lies in the label range')
  d_ev = enc.class_index_to_event(dl, None)
  c.check([e.event_type for e in d_ev] == [PE.TIME_SHIFT, PE.NOTE_ON,
                                           PE.VELOCITY, PE.DURATION] and
          lo <= d_ev[1].event_value <= hi and 1 <= d_ev[2].event_value <= nv,
          'default label decodes to a note tuple within the limits')
  sh = c.int('shift', 0, ms)
  pi = c.int('pitch', lo, hi)
  ve = c.int('vel', 1, nv)
  du = c.int('dur', 1, md)
  ev = (PE(PE.TIME_SHIFT, sh), PE(PE.NOTE_ON, pi), PE(PE.VELOCITY, ve),
        PE(PE.DURATION, du))
  label = enc.events_to_label([ev], 0)
  c.check(len(label) == 6, 'six sub-labels')
  for k in range(6):
    c.check(c.And(label[k] >= 0, label[k] < ncls[k]),
            'sub-label %d in [0, num_classes[%d])' % (k, k))
  back = enc.class_index_to_event(label, None)
  c.check(c.And([c.And(c.eq(a.event_type, b.event_type),
                       c.eq(a.event_value, b.event_value))
                 for a, b in zip(back, ev)]), 'decode(label) == event tuple')
  # arbitrary in-range label decodes to a tuple of valid events
  lab = [c.int('l%d' % k, 0, ncls[k] - 1) for k in range(6)]
  res, err = c.raises(enc.class_index_to_event, tuple(lab), None)
  c.check(err is None, 'every in-range label decodes')
  c.check(c.And(res[0].event_value >= 0, res[0].event_value <= ms,
                res[1].event_value >= lo, res[1].event_value <= hi,
                res[2].event_value >= 1, res[2].event_value <= nv,
                res[3].event_value >= 1, res[3].event_value <= md),
          'decoded tuple within the configured limits')
  c.check(c.And([c.eq(a, b) for a, b in zip(enc.events_to_label([res], 0), lab)]),
          'encode(decode(label)) == label')
  steps = enc.labels_to_num_steps([label, tuple(lab)])
  c.check(c.eq(steps, sh + res[0].event_value + res[3].event_value),
          'labels_to_num_steps = shifts + final duration')
  if c.params.get('input'):
    vec = enc.events_to_input([ev], 0)
    vec = list(vec.data) if hasattr(vec, 'data') else list(vec)
    c.check(len(vec) == enc.input_size, 'input vector has input_size entries')
    off = 0
    for k in range(6):
      c.check(_one_hot_block_ok(c, vec, off, ncls[k]) and
              vec[off + c.concretize(label[k])] == 1.0,
              'exactly one 1 in one-hot block %d' % k)
      off += ncls[k]


def _modulo_label(c, et, v, nv, ms):
  """Classes of the performance one-hot encoding over the full pitch range:
  128 note-ons, 128 note-offs, ms time shifts (1..ms), nv velocities."""
  return {1: v, 2: 128 + v, 3: 256 + v - 1, 4: 256 + ms + v - 1}[et]


def _check_modulo_vec(c, vec, et, v, nv, ms, what=''):
  """Modulo input vector: per event type a block (valid bit, cos, sin[, cos,
  sin]); a pitch sits on a circle of 144 notes and on the circle of its 12
  pitch classes, a time shift / velocity bin on a circle of ms / nv
  positions starting at the smallest value."""
  vec = list(vec)
  widths = [5, 5, 3] + ([3] if nv > 0 else [])
  c.check(len(vec) == sum(widths), what + 'input vector has input_size entries')
  v = c.concretize(v)
  if et in (1, 2):
    ang = [2 * math.pi * v / 144.0, 2 * math.pi * (v % 12) / 12.0]
  elif et == 3:
    ang = [2 * math.pi * (v - 1) / float(ms)]
  else:
    ang = [2 * math.pi * (v - 1) / float(nv)]
  own = [1.0]
  for a in ang:
    own += [math.cos(a), math.sin(a)]
  off = 0
  for t, w in zip((1, 2, 3, 4), widths):
    blk = vec[off:off + w]
    if t == et:
      c.check(all(abs(x - y) < 1e-9 for x, y in zip(blk, own)),
              what + 'own block = valid bit and (cos, sin) of the value\'s '
              'angle on its circle(s)')
    else:
      c.check(all(x == 0.0 for x in blk), what + 'other blocks are zero')
    off += w


def h_modulo(c):
  ped = c.mod('performance_encoder_decoder')
  pl = c.mod('performance_lib')
  PE = pl.PerformanceEvent
  nv, ms = c.params['nv'], c.params['ms']
  enc = ped.ModuloPerformanceEventSequenceEncoderDecoder(nv, ms)
  et = c.params['etype']
  if et == PE.VELOCITY:
    v = c.int('value', 1, nv)
  elif et == PE.TIME_SHIFT:
    v = c.int('value', 1, ms)
  else:
    v = c.int('value', 0, 127)
  ev = PE(et, v)
  label = enc.events_to_label([ev], 0)
  n = enc.num_classes
  c.check(n == 256 + ms + nv, 'num_classes')
  c.check(c.And(label >= 0, label < n), 'label in [0, num_classes)')
  back = enc.class_index_to_event(label, [])
  c.check(c.And(c.eq(back.event_type, et), c.eq(back.event_value, v)),
          'decode(label) == event')
  vec = enc.events_to_input([ev], 0)
  c.check(len(vec) == enc.input_size, 'input vector has input_size entries')
  _check_modulo_vec(c, vec, et, v, nv, ms)
  c.check(c.eq(label, _modulo_label(c, et, v, nv, ms)),
          'label = offset of the event type + value')
  c.check(enc.default_event_label == 256 + ms - 1,
          'default label = the longest time shift')
  widths = [5, 5, 3] + ([3] if nv > 0 else [])
  c.check(enc.input_size == sum(widths), 'input_size')
  off = 0
  for k, (t, w) in enumerate(zip((PE.NOTE_ON, PE.NOTE_OFF, PE.TIME_SHIFT,
                                  PE.VELOCITY), widths)):
    blk = vec[off:off + w]
    if t == et:
      c.check(blk[0] == 1.0, 'valid bit of the event\'s own block')
      c.check(all(abs(blk[j]**2 + blk[j + 1]**2 - 1.0) < 1e-9
                  for j in range(1, w, 2)), 'embeddings lie on the unit circle')
    else:
      c.check(all(x == 0.0 for x in blk), 'other blocks are zero')
    off += w
  lab = c.int('label', 0, 2000)
  c.assume(lab < n)
  gen = enc.class_index_to_event(lab, [])
  c.check(c.eq(enc.events_to_label([gen], 0), lab), 'encode(decode(l)) == l')
  steps = enc.labels_to_num_steps([label, lab])
  exp = (v if et == PE.TIME_SHIFT else 0) + c.If(
      c.eq(gen.event_type, PE.TIME_SHIFT), gen.event_value, 0)
  c.check(c.eq(steps, exp), 'labels_to_num_steps = sum of the time shifts')
  # generation loop: the decoded event is accepted by a Performance
  perf = pl.Performance(steps_per_second=100, start_step=0,
                        num_velocity_bins=nv, max_shift_steps=ms)
  perf.append(ev)
  perf.append(gen)
  c.check(c.eq(perf.num_steps, exp),
          'steps of the generated sequence = labels_to_num_steps')


def _pe_eq(c, a, b):
  return c.And(a.event_type == b.event_type,
               c.eq(a.event_value, b.event_value))


def h_positions(c):
  """Two-event sequences for the encoders the other harnesses drive with a
  one-element list: label / input of position 0 and of position 1 belong to
  THAT event, and the inherited encode pairs the input of event 0 with the
  label of event 1.  Also the constructors with their arguments omitted."""
  which = c.params['enc']
  ped = c.mod('performance_encoder_decoder')
  PE = c.mod('performance_lib').PerformanceEvent
  if which == 'modulo':
    if c.params.get('ctor') == 'default':
      nv, ms = 0, 100
      enc = ped.ModuloPerformanceEventSequenceEncoderDecoder()
    else:
      nv, ms = c.params['nv'], c.params['ms']
      enc = ped.ModuloPerformanceEventSequenceEncoderDecoder(
          num_velocity_bins=nv, max_shift_steps=ms)
    c.check(enc.num_classes == 256 + ms + nv, 'num_classes')
    c.check(enc.input_size == 13 + (3 if nv > 0 else 0), 'input_size')
    evs, raw = [], []
    for i, et in enumerate(c.params['types']):
      if et == PE.TIME_SHIFT:
        v = c.int('v%d' % i, max(1, ms - 3), ms)
      elif et == PE.VELOCITY:
        v = c.int('v%d' % i, 1, nv)
      else:
        v = c.int('v%d' % i, 58, 61)
      evs.append(PE(et, v))
      raw.append((et, v))
    evl = list(evs)
    for pos in (1, 0):
      et, v = raw[pos]
      lab = enc.events_to_label(evl, pos)
      c.check(c.eq(lab, _modulo_label(c, et, v, nv, ms)),
              'label of position p = offset of the type + value of events[p]')
      c.check(_pe_eq(c, enc.class_index_to_event(lab, evl[:pos]), evs[pos]),
              'decode(label(p), events[:p]) == events[p]')
      _check_modulo_vec(c, enc.events_to_input(evl, pos), et, v, nv, ms,
                        'position %d: ' % pos)
    ins, labs = enc.encode(evl)
    c.check(len(ins) == 1 and len(labs) == 1,
            'encode returns len-1 aligned pairs')
    _check_modulo_vec(c, ins[0], raw[0][0], raw[0][1], nv, ms, 'encode: ')
    c.check(c.eq(labs[0], _modulo_label(c, raw[1][0], raw[1][1], nv, ms)),
            'encode: label 0 is the label of event 1')
    c.check(len(evl) == 2 and evl[0] is evs[0] and evl[1] is evs[1],
            'the event list is left unmodified')
  elif which == 'noteperf':
    ms, md, nv = c.params['ms'], c.params['md'], c.params['nv']
    lo, hi = c.params['pitch']
    pos = c.params['pos']
    enc = ped.NotePerformanceEventSequenceEncoderDecoder(
        nv, max_shift_steps=ms, max_duration_steps=md, min_pitch=lo,
        max_pitch=hi)
    ncls = enc.num_classes
    evs = []
    for i in range(2):
      evs.append((PE(PE.TIME_SHIFT, c.int('s%d' % i, 0, ms)),
                  PE(PE.NOTE_ON, c.int('p%d' % i, lo, hi)),
                  PE(PE.VELOCITY, c.int('v%d' % i, 1, nv)),
                  PE(PE.DURATION, c.int('d%d' % i, 1, md))))
    evl = list(evs)
    labels = [enc.events_to_label(evl, i) for i in range(2)]
    for i in range(2):
      c.check(len(labels[i]) == 6 and bool(c.And(
          [c.And(labels[i][k] >= 0, labels[i][k] < ncls[k]) for k in range(6)])),
              'six sub-labels in range')
      back = enc.class_index_to_event(labels[i], evl[:i])
      c.check(c.And([_pe_eq(c, a, b) for a, b in zip(back, evs[i])]),
              'decode(label(p), events[:p]) == events[p]')
    c.cover('the two events differ',
            c.Not(c.eq(evs[0][1].event_value, evs[1][1].event_value)))

    def blocks_ok(vec, lab, what):
      vec = list(vec.data) if hasattr(vec, 'data') else list(vec)
      c.check(len(vec) == enc.input_size and enc.input_size == sum(ncls),
              what + 'input vector has input_size entries')
      off = 0
      for k in range(6):
        c.check(_one_hot_block_ok(c, vec, off, ncls[k]) and
                vec[off + c.concretize(lab[k])] == 1.0,
                what + 'one-hot block k marks sub-label k of events[p]')
        off += ncls[k]

    blocks_ok(enc.events_to_input(evl, pos), labels[pos], 'position p: ')
    if pos == 0:
      ins, labs = enc.encode(evl)
      c.check(len(ins) == 1 and len(labs) == 1,
              'encode returns len-1 aligned pairs')
      blocks_ok(ins[0], labels[0], 'encode: ')
      c.check(c.And([c.eq(a, b) for a, b in zip(labs[0], labels[1])]),
              'encode: label 0 is the label of event 1')
    steps = enc.labels_to_num_steps(labels)
    c.check(c.eq(steps, evs[0][0].event_value + evs[1][0].event_value +
                 evs[1][3].event_value),
            'labels_to_num_steps = shifts + final duration')
  else:
    pr = c.mod('pianoroll_encoder_decoder')
    W = c.params['W']
    enc = pr.PianorollEncoderDecoder(input_size=W)
    evs = [tuple(i for i in range(W) if bool(c.bool('b%d_%d' % (k, i))))
           for k in range(2)]
    evl = list(evs)
    for pos in (1, 0):
      lab = enc.events_to_label(evl, pos)
      c.check(lab == sum(2**i for i in evs[pos]),
              'label of position p = sum of 2**pitch over events[p]')
      c.check(enc.class_index_to_event(lab, evl[:pos]) == evs[pos],
              'decode(label(p), events[:p]) == events[p]')
      vec = enc.events_to_input(evl, pos)
      vec = list(vec.data) if hasattr(vec, 'data') else list(vec)
      c.check(len(vec) == W and all((vec[i] == 1) == (i in evs[pos])
                                    for i in range(W)),
              'input of position p marks exactly the pitches of events[p]')
    ins, labs = enc.encode(evl)
    c.check(len(ins) == 1 and len(labs) == 1,
            'encode returns len-1 aligned pairs')
    v0 = list(ins[0].data) if hasattr(ins[0], 'data') else list(ins[0])
    c.check(all((v0[i] == 1) == (i in evs[0]) for i in range(W)) and
            labs[0] == sum(2**i for i in evs[1]),
            'encode: input of event 0, label of event 1')
    c.check(enc.default_event_label == 0 and
            enc.class_index_to_event(enc.default_event_label, []) == (),
            'default label = the empty pianoroll event')
    c.check(enc.labels_to_num_steps([0, 1, 2]) == 3, 'one step per label')
    # the generation helper of this encoder takes binary samples
    seqs = [list(evl), [evs[1]]]
    samples = [c.np.array([1.0 if i in evs[k] else 0.0 for i in range(W)])
               for k in (1, 0)]
    enc.extend_event_sequences(seqs, samples)
    c.check(len(seqs[0]) == 3 and len(seqs[1]) == 2 and
            tuple(seqs[0][-1]) == evs[1] and tuple(seqs[1][-1]) == evs[0] and
            seqs[0][:2] == evl,
            'extend appends to each sequence the active pitches of its sample')
    res, err = c.raises(enc.extend_event_sequences, seqs, samples[:1])
    c.check(isinstance(err, ValueError), 'unequal lengths rejected')


def h_lookback_perf(c):
  """A lookback (or plain one-hot) encoder over a VARIABLE-STEP one-hot
  encoding: performance events with a restricted pitch range.  The generation
  loop is modelled independently (label -> plain class of the documented
  layout note-ons | note-offs | time shifts | velocities, or the event d_i
  back / the default event = longest time shift); labels_to_num_steps must be
  the sum of the time shifts of the sequence so generated."""
  ed = c.mod('encoder_decoder')
  ped = c.mod('performance_encoder_decoder')
  PE = c.mod('performance_lib').PerformanceEvent
  nv, ms = c.params['nv'], c.params['ms']
  lo, hi = c.params['pitch']
  R = hi - lo + 1
  n1 = 2 * R + ms + nv
  poh = ped.PerformanceOneHotEncoding(num_velocity_bins=nv, max_shift_steps=ms,
                                      min_pitch=lo, max_pitch=hi)
  c.check(poh.num_classes == n1, 'one-hot classes of the restricted range')
  spec = c.params['dists']
  if spec == 'onehot':
    dists = []
    enc = ed.OneHotEventSequenceEncoderDecoder(poh)
  else:
    dists = _lookbacks(c, spec) if isinstance(spec, int) else list(spec)
    enc = ed.LookbackEventSequenceEncoderDecoder(
        poh, lookback_distances=list(dists), binary_counter_bits=2)
  n = enc.num_classes
  c.check(n == n1 + len(dists), 'num_classes')
  c.check(enc.default_event_label == 2 * R + ms - 1,
          'default label = class of the longest time shift')
  N = c.params['N']
  labels = [c.int('l%d' % i, 0, n - 1) for i in range(N)]

  def plain(l):
    # (type, value) of a plain class
    ty = c.If(l < R, 1, c.If(l < 2 * R, 2, c.If(l < 2 * R + ms, 3, 4)))
    va = c.If(l < R, lo + l, c.If(l < 2 * R, lo + l - R,
                                  c.If(l < 2 * R + ms, l - 2 * R + 1,
                                       l - 2 * R - ms + 1)))
    return ty, va

  gen = []
  for t, l in enumerate(labels):
    ty, va = plain(l)
    for i, d in enumerate(dists):
      bty, bva = 3, ms
      for k in range(1, t + 1):
        bty = c.If(c.eq(d, k), gen[t - k][0], bty)
        bva = c.If(c.eq(d, k), gen[t - k][1], bva)
      ty = c.If(c.eq(l, n1 + i), bty, ty)
      va = c.If(c.eq(l, n1 + i), bva, va)
    gen.append((ty, va))
  want = c.Sum([c.If(c.eq(ty, 3), va, 0) for ty, va in gen])
  ll = list(labels)
  steps = enc.labels_to_num_steps(ll)
  c.check(c.eq(steps, want),
          'labels_to_num_steps = time shifts of the generated sequence')
  c.check(len(ll) == N and bool(c.And([c.eq(a, b)
                                       for a, b in zip(ll, labels)])),
          'the label list is left unmodified')
  # the generation loop itself, and the labels of what it generated
  seq = []
  for t, l in enumerate(labels):
    ev = enc.class_index_to_event(l, seq)
    c.check(c.And(c.eq(ev.event_type, gen[t][0]),
                  c.eq(ev.event_value, gen[t][1])),
            'the label decodes to its plain class, or to the event d_i steps '
            'back (default event before the start)')
    seq.append(ev)
  for t in range(N):
    lab = enc.events_to_label(seq, t)
    c.check(c.And(lab >= 0, lab < n), 'label in [0, num_classes)')
    c.check(_pe_eq(c, enc.class_index_to_event(lab, seq[:t]), seq[t]),
            'decode(label(p), events[:p]) == events[p]')
  if dists:
    c.cover('a lookback label after a time shift',
            c.And(c.eq(gen[0][0], 3), labels[1] >= n1))


def h_degenerate(c):
  """One-event sequences and empty label lists: encode has no pair to return
  and a sequence generated from no labels has no steps."""
  ed = c.mod('encoder_decoder')
  med = c.mod('melody_encoder_decoder')
  ped = c.mod('performance_encoder_decoder')
  PE = c.mod('performance_lib').PerformanceEvent
  oh = med.MelodyOneHotEncoding(LO, HI)
  e = _valid_event(c, 'e0')
  which = c.params['enc']
  if which == 'noteperf':
    enc = ped.NotePerformanceEventSequenceEncoderDecoder(2, 5, 6, 60, 61)
    ev = (PE(PE.TIME_SHIFT, c.int('s', 0, 5)), PE(PE.NOTE_ON, 60),
          PE(PE.VELOCITY, 1), PE(PE.DURATION, 1))
    c.check(enc.encode([ev]) == ([], []), 'encode of one event: no pairs')
    res, err = c.raises(enc.labels_to_num_steps, [])
    c.check(err is None and res == 0, 'no labels, no steps')
    return
  encs = [ed.OneHotEventSequenceEncoderDecoder(oh),
          ed.OneHotIndexEventSequenceEncoderDecoder(oh),
          ed.LookbackEventSequenceEncoderDecoder(oh),
          ed.LookbackEventSequenceEncoderDecoder(oh, [], 0),
          med.KeyMelodyEncoderDecoder(LO, HI)]
  for enc in encs:
    res, err = c.raises(enc.encode, [e])
    c.check(err is None and res == ([], []), 'encode of one event: no pairs')
    res, err = c.raises(enc.labels_to_num_steps, [])
    c.check(err is None and res == 0, 'no labels, no steps')
  men = ped.ModuloPerformanceEventSequenceEncoderDecoder(2, 4)
  c.check(men.encode([PE(PE.TIME_SHIFT, c.int('s', 1, 4))]) == ([], []) and
          men.labels_to_num_steps([]) == 0,
          'modulo encoder: no pairs, no steps')
  pen = c.mod('pianoroll_encoder_decoder').PianorollEncoderDecoder(4)
  c.check(pen.encode([(1, 2)]) == ([], []) and
          pen.labels_to_num_steps([]) == 0,
          'pianoroll encoder: no pairs, no steps')
  wrap = ed.ConditionalEventSequenceEncoderDecoder(encs[0], encs[2])
  c.check(wrap.encode([e], [e]) == ([], []) and
          wrap.labels_to_num_steps([]) == 0,
          'conditional wrapper: no pairs, no steps')


def h_pianoroll(c):
  ped = c.mod('pianoroll_encoder_decoder')
  W = c.params['W']
  enc = ped.PianorollEncoderDecoder(W)
  c.check(enc.num_classes == 2**W, 'num_classes')
  bits = [c.bool('b%d' % i) for i in range(W)]
  ev = tuple(i for i in range(W) if bool(bits[i]))
  label = enc.events_to_label([ev], 0)
  c.check(0 <= label < 2**W, 'label in [0, num_classes)')
  c.check(enc.class_index_to_event(label, []) == ev, 'decode(label) == event')
  vec = enc.events_to_input([ev], 0)
  vec = list(vec.data) if hasattr(vec, 'data') else list(vec)
  c.check(len(vec) == W and all((vec[i] == 1) == (i in ev) for i in range(W)),
          'input vector marks exactly the active pitches')
  lab = c.int('label', 0, 2**W - 1)
  gen = enc.class_index_to_event(lab, [])
  c.check(c.eq(enc.events_to_label([gen], 0), lab), 'encode(decode(l)) == l')
  c.check(all(0 <= p < W for p in gen) and list(gen) == sorted(set(gen)),
          'decoded event is a sorted tuple of in-range pitches')


def h_pianoroll_wide(c):
  """The default 88-key encoder: labels are sums of 2**pitch, far beyond the
  53-bit mantissa of a double.  K active pitches anywhere on the keyboard (the
  solver closes the choice), plus the all-keys label."""
  ped = c.mod('pianoroll_encoder_decoder')
  W, Kp = c.params.get('W', 88), c.params['K']
  if c.params.get('default_ctor'):
    enc = ped.PianorollEncoderDecoder()
    c.check(enc.input_size == 88 and enc.num_classes == 2**88,
            'default pianoroll encoder has 88 keys')
  else:
    enc = ped.PianorollEncoderDecoder(W)
  ps = [c.int('p%d' % i, 0, W - 1) for i in range(Kp)]
  for a, b in zip(ps, ps[1:]):
    c.assume(a < b)
  ev = tuple(c.concretize(p_) for p_ in ps)
  label = enc.events_to_label([ev], 0)
  c.check(0 <= label < enc.num_classes, 'label in [0, num_classes)')
  res, err = c.raises(enc.class_index_to_event, label, [])
  c.check(err is None and res == ev, 'decode(label) == event')
  vec = enc.events_to_input([ev], 0)
  vec = list(vec.data) if hasattr(vec, 'data') else list(vec)
  c.check(len(vec) == W and all((vec[i] == 1) == (i in ev) for i in range(W)),
          'input vector marks exactly the active pitches')
  full = 2**W - 1
  res, err = c.raises(enc.class_index_to_event, full, [])
  c.check(err is None and res == tuple(range(W)),
          'the all-keys label decodes to every pitch')
  c.cover('pitches more than 53 keys apart', ev[-1] - ev[0] > 53)


HARNESSES = {
    'h_pianoroll_wide': h_pianoroll_wide,
    'h_lookback': h_lookback,
    'h_lookback_input': h_lookback_input,
    'h_lookback_vec': h_lookback_vec,
    'h_onehot': h_onehot,
    'h_generation_step': h_generation_step,
    'h_extend': h_extend,
    'h_extend_multi': h_extend_multi,
    'h_keymelody': h_keymelody,
    'h_keymelody_input': h_keymelody_input,
    'h_keymelody_vec': h_keymelody_vec,
    'h_conditional': h_conditional,
    'h_conditional_ctl': h_conditional_ctl,
    'h_noteperf': h_noteperf,
    'h_modulo': h_modulo,
    'h_positions': h_positions,
    'h_degenerate': h_degenerate,
    'h_lookback_perf': h_lookback_perf,
    'h_pianoroll': h_pianoroll,
}


def jobs(tier):
  J = []

  def add(h, budget=200, required=True, **params):
    J.append({'harness': h, 'params': params, 'budget_s': budget,
              'required': required})

  deep = tier == 'thorough'
  Lq = 4
  for p in range(Lq):
    for nl in (0, 1, 2):
      add('h_lookback', L=Lq, p=p, nl=nl)
  add('h_lookback_input', L=3, p=2, nl=2, small_alphabet=True, dmax=2)
  add('h_lookback_input', L=3, p=0, nl=1, small_alphabet=True, dmax=2)
  add('h_onehot', L=2, small_alphabet=True)
  for encn in ('lookback', 'keymelody', 'onehot'):
    for H in (0, 1, 3):
      add('h_generation_step', enc=encn, H=H, nl=2 if encn != 'onehot' else 0)
  # the generation helper: first step after a primer (T = primer length) and
  # later steps (T = 1), beam of 2
  add('h_extend', enc='onehot', H=2, T=2)
  add('h_extend', enc='onehot', H=1, T=1)
  add('h_extend', enc='lookback', H=3, T=3, B=1, budget=600)
  add('h_extend', enc='lookback', H=2, T=1, budget=600)
  for p in range(Lq):
    add('h_keymelody', L=Lq, p=p, nl=2)
  add('h_keymelody', L=2, p=1, nl=1)
  add('h_keymelody_input', L=2, p=1, nl=1, budget=600)
  add('h_conditional', L=2, small_alphabet=True)
  add('h_noteperf', ms=1000, md=1000, nv=32, pitch=[0, 127])
  add('h_noteperf', ms=99, md=100, nv=127, pitch=[21, 108])
  add('h_noteperf', ms=5, md=6, nv=2, pitch=[60, 61], input=True)
  for et in (1, 2, 3, 4):
    add('h_modulo', nv=4, ms=10, etype=et)
  add('h_modulo', nv=0, ms=8, etype=3)
  add('h_pianoroll', W=3)
  add('h_pianoroll', W=4)
  add('h_pianoroll_wide', K=1)
  add('h_pianoroll_wide', K=2, budget=600)
  # --- audit round: content of the input vectors, constructor defaults,
  # encode inputs, get_inputs_batch
  add('h_lookback_vec', L=4, p=3, dists=2, dmax=4, alphabet=3)
  add('h_lookback_vec', L=4, p=1, dists=1, dmax=3, small_alphabet=True)
  add('h_lookback_vec', L=3, p=2, dists=[2, 1], bits=0, alphabet=3, encode=True)
  add('h_lookback_vec', L=34, p=33, sym=[33, 17, 2], alphabet=3)
  add('h_lookback_vec', L=18, p=16, sym=[16, 0, 1], alphabet=3)
  add('h_lookback_vec', L=18, p=15, sym=[15, 0], small_alphabet=True)
  add('h_lookback_vec', L=34, p=32, sym=[32, 0, 1, 16], alphabet=3, dists=[],
      bits=7)
  add('h_positions', enc='modulo', nv=3, ms=4, types=[3, 4])
  add('h_positions', enc='modulo', nv=0, ms=6, types=[2, 1])
  add('h_positions', enc='modulo', ctor='default', types=[1, 3])
  add('h_positions', enc='noteperf', ms=3, md=4, nv=1, pitch=[60, 61], pos=0)
  add('h_positions', enc='noteperf', ms=3, md=4, nv=1, pitch=[60, 61], pos=1)
  add('h_positions', enc='pianoroll', W=3)
  add('h_noteperf', ms=1000, md=1000, nv=16, pitch=[0, 127], defaults=True)
  add('h_keymelody_vec', L=4, p=3, dists=[1, 3], bits=3, sym=[1, 2, 3])
  add('h_keymelody_vec', L=3, p=2, dists=[2, 1], bits=2, encode=True,
      as_melody=True, start_step=5)
  add('h_keymelody_vec', L=34, p=33, sym=[33, 17, 1])
  add('h_keymelody_vec', L=18, p=15, sym=[15, 14, 0], as_melody=True)
  add('h_keymelody_vec', L=18, p=16, sym=[16, 0], dists=[16], bits=5)
  add('h_keymelody_vec', L=3, p=2, dists=[1], bits=1, range=[1, 128],
      sym=[1, 2])
  # NOT CLAIMED (content of key-melody input vectors is not in C08's statement): with min_note=0 a sounding pitch 0 is reported as
  # silence (`if current_note:` in KeyMelodyEncoderDecoder.events_to_input):
  # KeyMelodyEncoderDecoder(0, 128, [1], 1).events_to_input([60, -1, 0], 2)
  # has entry 129 (silence) set and neither entry 0 nor entry 128.
  # add('h_keymelody_vec', L=3, p=2, dists=[1], bits=1, range=[0, 128],
  #     sym=[1, 2])
  for ctl in ('multi', 'single', 'optional', 'triad', 'density', 'histogram',
              'lookback'):
    add('h_conditional_ctl', ctl=ctl, extend=ctl == 'single',
        msym=[1] if ctl == 'optional' else [1, 2],
        tsym=[0, 2] if ctl == 'density' else [1],
        target='lookback' if ctl in ('optional', 'density') else 'onehot')
  add('h_extend_multi', T=2)
  add('h_degenerate', enc='all')
  # NOT CLAIMED (empty label list, outside the quantifier): NotePerformanceEventSequenceEncoderDecoder(2, 5, 6, 60,
  # 61).labels_to_num_steps([]) raises UnboundLocalError (`event` is only
  # bound inside the loop) instead of returning 0.
  # add('h_degenerate', enc='noteperf')
  # an empty key-melody lookback list (F-C08-a, fixed: events_to_label raised
  # IndexError - `self._lookback_distances[-1]` without the emptiness guard
  # LookbackEventSequenceEncoderDecoder has; the quantifier ranges over all
  # lookback lists)
  add('h_keymelody', L=2, p=1, nl=0)
  add('h_keymelody', L=2, p=0, nl=0)
  # NOT CLAIMED (the default label is not the label of a position): NotePerformanceEventSequenceEncoderDecoder(2, 5, 6,
  # min_pitch=61, max_pitch=62).default_event_label == (0, 0, -1, 0, 0, 0):
  # the hard-coded pitch 60 is below the range, sub-label 2 is negative.
  # add('h_noteperf', ms=5, md=6, nv=2, pitch=[61, 62])
  # NOT CLAIMED (configuration rejected at construction; an assert, though the quantifier says "all shift
  # limits"): NotePerformanceEventSequenceEncoderDecoder(2, max_shift_steps=100)
  # dies with AssertionError in the constructor because 101 is prime (same for
  # a prime max_duration_steps); 100 is performance_lib's default shift limit.
  # add('h_noteperf', ms=100, md=1000, nv=2, pitch=[0, 127])
  add('h_lookback_perf', nv=2, ms=3, pitch=[60, 62], dists=[1, 2], N=3)
  add('h_lookback_perf', nv=0, ms=4, pitch=[21, 108], dists=1, dmax=2, N=3)
  add('h_lookback_perf', nv=2, ms=3, pitch=[60, 61], dists='onehot', N=2)
  add('h_pianoroll_wide', K=1, default_ctor=True)
  if deep:
    for L in (5, 6):
      for p in range(L):
        add('h_lookback', L=L, p=p, nl=2, budget=900)
    for p in range(8):
      add('h_lookback', L=8, p=p, nl=2, alphabet=3, dmax=3, budget=1800)
      add('h_lookback', L=8, p=p, nl=3, alphabet=3, dmax=3, budget=2400,
          required=False)
    for p in range(4):
      add('h_lookback_input', L=4, p=p, nl=2, budget=1800, small_alphabet=True,
          dmax=3)
    add('h_onehot', L=3, budget=900, small_alphabet=True)
    add('h_onehot', L=1, budget=900)
    for encn in ('lookback', 'keymelody'):
      add('h_generation_step', enc=encn, H=4, nl=2, budget=900)
    for p in range(6):
      add('h_keymelody', L=6, p=p, nl=2, budget=900)
    add('h_keymelody_input', L=3, p=2, nl=2, budget=3000, required=False)
    add('h_conditional', L=3, budget=1800, small_alphabet=True)
    add('h_noteperf', ms=11, md=12, nv=3, pitch=[60, 62], input=True, budget=1800)
    add('h_noteperf', ms=399, md=400, nv=64, pitch=[0, 127])
    add('h_modulo', nv=32, ms=100, etype=3, budget=900)
    add('h_pianoroll', W=6, budget=900)
    for p in range(4):
      add('h_lookback_vec', L=4, p=p, dists=2, dmax=4, small_alphabet=True,
          encode=p == 3, budget=1800)
    add('h_lookback_vec', L=5, p=4, dists=[3, 1], bits=4, alphabet=3,
        encode=True, budget=900)
    add('h_keymelody_vec', L=4, p=3, dists=[1, 3], bits=3, encode=True,
        budget=900)
    add('h_keymelody_vec', L=34, p=32, sym=[32, 31, 16, 0], encode=True,
        as_melody=True, budget=1800)
    add('h_lookback_perf', nv=2, ms=3, pitch=[60, 62], dists=2, dmax=3, N=4,
        budget=1800)
    for ctl in ('multi', 'optional', 'lookback'):
      add('h_conditional_ctl', ctl=ctl, L=4, msym=[1, 2, 3], tsym=[1, 2],
          target='lookback', extend=True, budget=1800)
    add('h_positions', enc='pianoroll', W=4, budget=900)
    add('h_extend_multi', T=3, budget=900)
  return J
