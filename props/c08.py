"""C08 -- decoding the labels an encoder produced reconstructs the sequence."""
from props import common as K

META = {
    'level': 'model_checking',
    'level_text':
        'The real events_to_label / class_index_to_event / events_to_input / '
        'encode / labels_to_num_steps of every EventSequenceEncoderDecoder are '
        'executed on symbolic event lists (events stay symbolic integers; '
        'paths split only on equalities between events), symbolic lookback '
        'distances and symbolic labels; the solver shows on every path that '
        'decoding the label against the prefix gives the event, that the label '
        'is the one the documented precedence selects, that labels and one-hot '
        'blocks are in range, and - as one inductive step from an arbitrary '
        'valid history - that any in-range label decodes to an event the '
        'sequence accepts.',
    'level_note':
        'Trusted: z3 (integers), np-lite for the two encoders that build their '
        'input with numpy and for the key histograms (bincount over symbolic '
        'pitches gives symbolic counts) of KeyMelodyEncoderDecoder.'
        'events_to_input, whose vectors are checked for size, value range, '
        'the pitch/silence block and the key flags on 2-event melodies (the '
        'max over twelve symbolic counts makes longer melodies expensive: 3 '
        'events are a non-required thorough job).',
    'functions': [
        ('encoder_decoder', 'EventSequenceEncoderDecoder.encode'),
        ('encoder_decoder', 'OneHotEventSequenceEncoderDecoder.events_to_input'),
        ('encoder_decoder', 'OneHotEventSequenceEncoderDecoder.events_to_label'),
        ('encoder_decoder',
         'OneHotEventSequenceEncoderDecoder.class_index_to_event'),
        ('encoder_decoder',
         'OneHotEventSequenceEncoderDecoder.labels_to_num_steps'),
        ('encoder_decoder',
         'OneHotIndexEventSequenceEncoderDecoder.events_to_input'),
        ('encoder_decoder',
         'LookbackEventSequenceEncoderDecoder.events_to_input'),
        ('encoder_decoder',
         'LookbackEventSequenceEncoderDecoder.events_to_label'),
        ('encoder_decoder',
         'LookbackEventSequenceEncoderDecoder.class_index_to_event'),
        ('encoder_decoder',
         'LookbackEventSequenceEncoderDecoder.labels_to_num_steps'),
        ('encoder_decoder',
         'ConditionalEventSequenceEncoderDecoder.events_to_input'),
        ('encoder_decoder', 'ConditionalEventSequenceEncoderDecoder.encode'),
        ('melody_encoder_decoder', 'KeyMelodyEncoderDecoder.events_to_label'),
        ('melody_encoder_decoder', 'KeyMelodyEncoderDecoder.events_to_input'),
        ('melodies_lib', 'Melody.get_major_key_histogram'),
        ('melody_encoder_decoder',
         'KeyMelodyEncoderDecoder.class_index_to_event'),
        ('performance_encoder_decoder',
         'ModuloPerformanceEventSequenceEncoderDecoder.events_to_input'),
        ('performance_encoder_decoder',
         'NotePerformanceEventSequenceEncoderDecoder._encode_event'),
        ('performance_encoder_decoder',
         'NotePerformanceEventSequenceEncoderDecoder.class_index_to_event'),
        ('performance_encoder_decoder',
         'NotePerformanceEventSequenceEncoderDecoder.events_to_input'),
        ('performance_encoder_decoder',
         'NotePerformanceEventSequenceEncoderDecoder.labels_to_num_steps'),
        ('pianoroll_encoder_decoder', 'PianorollEncoderDecoder._event_to_label'),
        ('pianoroll_encoder_decoder',
         'PianorollEncoderDecoder.class_index_to_event'),
    ],
    'assumptions': [
        'melody alphabet = the valid events of MelodyOneHotEncoding(48, 84); '
        'the input-vector harnesses (which concretise the class index) use '
        'the sub-alphabet {no-event, note-off, 48, 49, 83}',
        'lookback distances are positive integers in [1,4] (sorted or not)',
        'for unsorted lookback lists the precedence oracle is the code\'s '
        'documented rule "highest list index first"',
        'note-performance configurations are taken from a grid whose segment '
        'counts are computed concretely by the constructor',
        'generation runs start from a non-empty label list for the '
        'note-performance encoder',
    ],
    'bounds': {
        'quick': 'L<=4 events, every position, 0-2 symbolic lookback distances; '
                 'generation step from histories of length <=3; pianoroll width '
                 '<=4',
        'thorough': 'L<=6 (8 over the 3-symbol alphabet with lookbacks from '
                    '{1,2,3}); histories <=4; pianoroll width 6',
    },
    'outside': ['KeyMelody input vectors of melodies longer than 2 (3) events',
                'sequences longer than the bounds'],
}

LO, HI = 48, 84


def _valid_event(c, name):
  if c.params.get('small_alphabet'):
    # input vectors index lists with the class of the event, which concretises
    # it; those harnesses use the alphabet {no-event, note-off, 48, 49, 83}
    e = c.int(name, -2, HI - 1)
    c.assume(c.Or(e < 0, c.eq(e, LO), c.eq(e, LO + 1), c.eq(e, HI - 1)))
    return e
  e = c.int(name, -2, HI - 1)
  c.assume(c.Or(e < 0, e >= LO))
  return e


def _lookbacks(c, n):
  return [c.int('d%d' % i, 1, c.params.get('dmax', 4)) for i in range(n)]


def _expected_lookback_label(c, events, p, dists, n_onehot, default, encode):
  """Documented precedence, written independently (forks are path-decided)."""
  if dists and bool(p < dists[-1]) and bool(c.eq(events[p], default)):
    return n_onehot + len(dists) - 1
  for i in range(len(dists) - 1, -1, -1):
    d = c.concretize(dists[i])
    if p - d >= 0 and bool(c.eq(events[p], events[p - d])):
      return n_onehot + i
  return encode(events[p])


def h_lookback(c):
  ed = c.mod('encoder_decoder')
  med = c.mod('melody_encoder_decoder')
  L, p, nl = c.params['L'], c.params['p'], c.params['nl']
  if c.params.get('alphabet') == 3:
    base = LO
    events = [c.int('e%d' % i, -2, LO) for i in range(L)]
    for e in events:
      c.assume(c.Or(c.eq(e, -2), c.eq(e, -1), c.eq(e, LO)))
  else:
    events = [_valid_event(c, 'e%d' % i) for i in range(L)]
  dists = _lookbacks(c, nl)
  oh = med.MelodyOneHotEncoding(LO, HI)
  enc = ed.LookbackEventSequenceEncoderDecoder(oh, list(dists),
                                               binary_counter_bits=3)
  n = enc.num_classes
  c.check(n == (HI - LO + 2) + nl, 'num_classes')
  label = enc.events_to_label(list(events), p)
  c.check(c.And(label >= 0, label < n), 'label in [0, num_classes)')
  back = enc.class_index_to_event(label, list(events[:p]))
  c.check(c.eq(back, events[p]), 'decode(label(p), events[:p]) == events[p]')
  exp = _expected_lookback_label(c, events, p, dists, HI - LO + 2, -2,
                                 oh.encode_event)
  c.check(c.eq(label, exp), 'label follows the documented precedence')
  if nl >= 2:
    c.cover('unsorted lookback list', dists[0] > dists[1])
  if nl and p >= 1:
    c.cover('repeat of an earlier event',
            c.eq(events[p], events[p - 1]))


def _one_hot_block_ok(c, vec, start, size):
  ones = sum(1 for x in vec[start:start + size] if x == 1.0)
  zeros = sum(1 for x in vec[start:start + size] if x == 0.0)
  return ones == 1 and zeros == size - 1


def h_lookback_input(c):
  ed = c.mod('encoder_decoder')
  med = c.mod('melody_encoder_decoder')
  L, p, nl = c.params['L'], c.params['p'], c.params['nl']
  events = [_valid_event(c, 'e%d' % i) for i in range(L)]
  dists = _lookbacks(c, nl)
  oh = med.MelodyOneHotEncoding(LO, HI)
  bits = 3
  enc = ed.LookbackEventSequenceEncoderDecoder(oh, list(dists),
                                               binary_counter_bits=bits)
  n1 = HI - LO + 2
  vec = enc.events_to_input(list(events), p)
  c.check(len(vec) == enc.input_size, 'input vector has input_size entries')
  c.check(enc.input_size == n1 * (1 + nl) + bits + nl, 'input_size formula')
  for b in range(1 + nl):
    c.check(_one_hot_block_ok(c, vec, b * n1, n1),
            'exactly one 1 in each one-hot block')
  off = n1 * (1 + nl)
  c.check(all(x in (1.0, -1.0) for x in vec[off:off + bits]),
          'binary counters are +-1')
  c.check(all(x in (1.0, 0.0) for x in vec[off + bits:]), 'repeat flags are 0/1')
  c.check(vec[c.concretize(oh.encode_event(events[p]))] == 1.0,
          'current-event block encodes events[p]')
  ins, labs = enc.encode(list(events))
  c.check(len(ins) == L - 1 and len(labs) == L - 1,
          'encode returns len-1 aligned pairs')
  for i in range(L - 1):
    c.check(c.eq(labs[i], enc.events_to_label(list(events), i + 1)),
            'label i belongs to position i+1')


def h_onehot(c):
  ed = c.mod('encoder_decoder')
  med = c.mod('melody_encoder_decoder')
  L = c.params['L']
  events = [_valid_event(c, 'e%d' % i) for i in range(L)]
  oh = med.MelodyOneHotEncoding(LO, HI)
  n1 = HI - LO + 2
  for enc, index_only in ((ed.OneHotEventSequenceEncoderDecoder(oh), False),
                          (ed.OneHotIndexEventSequenceEncoderDecoder(oh), True)):
    c.check(enc.num_classes == n1, 'num_classes')
    for p in range(L):
      label = enc.events_to_label(list(events), p)
      c.check(c.And(label >= 0, label < n1), 'label in range')
      c.check(c.eq(enc.class_index_to_event(label, list(events[:p])),
                   events[p]), 'decode(label) == event')
      vec = enc.events_to_input(list(events), p)
      c.check(len(vec) == enc.input_size, 'input vector has input_size entries')
      if index_only:
        c.check(c.eq(vec[0], label), 'index input equals the label')
      else:
        c.check(_one_hot_block_ok(c, vec, 0, n1) and
                vec[c.concretize(label)] == 1.0, 'one-hot input')
    ins, labs = enc.encode(list(events))
    c.check(len(ins) == L - 1 and len(labs) == L - 1,
            'encode returns len-1 aligned pairs')
    c.check(enc.labels_to_num_steps([0] * L) == L, 'one step per label')


def h_generation_step(c):
  """Inductive step: arbitrary valid history + arbitrary in-range label."""
  ed = c.mod('encoder_decoder')
  med = c.mod('melody_encoder_decoder')
  ml = c.mod('melodies_lib')
  H, nl = c.params['H'], c.params['nl']
  hist = [_valid_event(c, 'h%d' % i) for i in range(H)]
  dists = _lookbacks(c, nl)
  oh = med.MelodyOneHotEncoding(LO, HI)
  which = c.params['enc']
  if which == 'lookback':
    enc = ed.LookbackEventSequenceEncoderDecoder(oh, list(dists), 3)
  elif which == 'keymelody':
    c.assume(True)
    enc = med.KeyMelodyEncoderDecoder(LO, HI, list(dists) or [1], 3)
  else:
    enc = ed.OneHotEventSequenceEncoderDecoder(oh)
  n = enc.num_classes
  label = c.int('label', 0, 200)
  c.assume(label < n)
  ev = enc.class_index_to_event(label, list(hist))
  c.check(c.And(ev >= -2, ev < HI, c.Or(ev < 0, ev >= LO)),
          'decoded event is a valid melody event (invariant preserved)')
  m = ml.Melody(list(hist)) if H else ml.Melody()
  before = len(m)
  m.append(ev)
  c.check(len(m) == before + 1, 'append accepts the decoded event')
  # and the label of the appended event decodes back to it
  full = list(hist) + [ev]
  lab2 = enc.events_to_label(full, H)
  c.check(c.And(lab2 >= 0, lab2 < n), 'label of the generated event in range')
  c.check(c.eq(enc.class_index_to_event(lab2, list(hist)), ev),
          're-encoding the generated event decodes to it again')


def h_extend(c):
  """extend_event_sequences, the generation helper itself: a beam of B
  histories, a softmax of T time steps per history (T = the primer length on
  the first generation step, 1 afterwards) whose rows are one-hot at symbolic
  labels; np.random.choice is a nondeterministic stub returning any index of
  positive probability.  The event appended to each history must be the one
  the label of the LAST time step denotes for THAT history."""
  ed = c.mod('encoder_decoder')
  med = c.mod('melody_encoder_decoder')
  ml = c.mod('melodies_lib')
  H, T, B = c.params['H'], c.params['T'], c.params.get('B', 2)
  oh = med.MelodyOneHotEncoding(LO, HI)
  if c.params['enc'] == 'lookback':
    enc = ed.LookbackEventSequenceEncoderDecoder(oh, [1, 2], 3)
  else:
    enc = ed.OneHotEventSequenceEncoderDecoder(oh)
  n = enc.num_classes
  hists, labels, seqs, softmax = [], [], [], []
  for b in range(B):
    hist = [_valid_event(c, 'b%d_h%d' % (b, i)) for i in range(H)]
    labs = [c.int('b%d_l%d' % (b, t), 0, n - 1) for t in range(T)]
    hists.append(hist)
    labels.append(labs)
    seqs.append(ml.Melody(list(hist)))
    softmax.append([[c.If(c.eq(lab, k), 1.0, 0.0) for k in range(n)]
                    for lab in labs])
  before = [list(m) for m in seqs]
  chosen = enc.extend_event_sequences(seqs, softmax)
  c.check(len(chosen) == B, 'one chosen class per sequence')
  for b in range(B):
    c.check(c.eq(chosen[b], labels[b][-1]),
            'the class is sampled from the last time step of this sequence\'s '
            'softmax')
    want = enc.class_index_to_event(labels[b][-1], list(before[b]))
    now = list(seqs[b])
    c.check(len(now) == H + 1 and bool(c.And(
        [c.eq(x, y) for x, y in zip(now[:H], before[b])] or [True])),
            'the history is kept and grows by exactly one event')
    c.check(c.eq(now[-1], want),
            'the appended event is class_index_to_event(label, history)')
  if T >= 2:
    c.cover('first and last time step disagree',
            c.Not(c.eq(labels[0][0], labels[0][-1])))


def h_keymelody(c):
  med = c.mod('melody_encoder_decoder')
  L, p, nl = c.params['L'], c.params['p'], c.params['nl']
  events = [_valid_event(c, 'e%d' % i) for i in range(L)]
  dists = _lookbacks(c, nl)
  enc = med.KeyMelodyEncoderDecoder(LO, HI, list(dists), 3)
  n = enc.num_classes
  c.check(n == (HI - LO) + 2 + nl, 'num_classes')
  label = enc.events_to_label(list(events), p)
  c.check(c.And(label >= 0, label < n), 'label in [0, num_classes)')
  back = enc.class_index_to_event(label, list(events[:p]))
  c.check(c.eq(back, events[p]), 'decode(label(p), events[:p]) == events[p]')

  def plain(e):
    return c.If(c.eq(e, -1), HI - LO + 1, c.If(c.eq(e, -2), HI - LO, e - LO))

  exp = _expected_lookback_label(c, events, p, dists, HI - LO + 2, -2, plain)
  c.check(c.eq(label, exp), 'label follows the documented precedence')
  c.check(enc.default_event_label == HI - LO, 'default label = no-event')


def h_keymelody_input(c):
  """KeyMelody input vectors: input_size entries, each in {-1, 0, 1}, the
  pitch / silence block one-hot (key histograms through np-lite)."""
  med = c.mod('melody_encoder_decoder')
  L, p, nl = c.params['L'], c.params['p'], c.params['nl']
  events = [_valid_event(c, 'e%d' % i) for i in range(L)]
  dists = _lookbacks(c, nl)
  bits = c.params.get('bits', 3)
  enc = med.KeyMelodyEncoderDecoder(LO, HI, list(dists), bits)
  want = (HI - LO) + 2 + 1 + 1 + nl + bits + 1 + 12 + 12
  c.check(enc.input_size == want, 'input_size as documented')
  vec = enc.events_to_input(list(events), p)
  c.check(len(vec) == enc.input_size, 'input vector has input_size entries')
  c.check(c.And([c.Or(c.eq(v, 0), c.eq(v, 1), c.eq(v, -1)) for v in vec]),
          'entries are -1, 0 or 1')
  r = HI - LO
  ones = c.Sum([c.If(c.eq(v, 1), 1, 0) for v in vec[:r]])
  c.check(bool(c.eq(ones + c.If(c.eq(vec[r + 1], 1), 1, 0), 1)) and
          bool(c.eq(vec[r], ones)) and
          bool(c.And([c.Or(c.eq(v, 0), c.eq(v, 1)) for v in vec[:r + 2]])),
          'exactly one of: a pitch of the range (with the playing flag) / '
          'silence')
  c.check(bool(c.Or([c.eq(v, 1) for v in vec[-12:]])) and
          bool(c.Or([c.eq(v, 1) for v in vec[-24:-12]])),
          'at least one key flagged in each key block')


def h_conditional(c):
  ed = c.mod('encoder_decoder')
  med = c.mod('melody_encoder_decoder')
  L = c.params['L']
  ctrl = [_valid_event(c, 'c%d' % i) for i in range(L)]
  tgt = [_valid_event(c, 't%d' % i) for i in range(L)]
  oh = med.MelodyOneHotEncoding(LO, HI)
  n1 = HI - LO + 2
  cenc = ed.OneHotEventSequenceEncoderDecoder(oh)
  tenc = ed.LookbackEventSequenceEncoderDecoder(oh, [1], 2)
  enc = ed.ConditionalEventSequenceEncoderDecoder(cenc, tenc)
  c.check(enc.input_size == cenc.input_size + tenc.input_size, 'input_size')
  c.check(enc.num_classes == tenc.num_classes, 'num_classes')
  ins, labs = enc.encode(list(ctrl), list(tgt))
  c.check(len(ins) == L - 1 and len(labs) == L - 1,
          'encode returns len-1 aligned pairs')
  for i in range(L - 1):
    vec = ins[i]
    c.check(len(vec) == enc.input_size, 'input vector has input_size entries')
    c.check(_one_hot_block_ok(c, vec, 0, n1) and
            vec[c.concretize(oh.encode_event(ctrl[i + 1]))] == 1.0,
            'control part encodes the control event one position ahead')
    c.check(vec[n1:] == tenc.events_to_input(list(tgt), i),
            'target part encodes the target event at the position')
    c.check(c.eq(labs[i], tenc.events_to_label(list(tgt), i + 1)),
            'label is the target label of position i+1')
    c.check(c.eq(enc.class_index_to_event(labs[i], list(tgt[:i + 1])),
                 tgt[i + 1]), 'decode(label) == target event')
  res, err = c.raises(enc.encode, list(ctrl), list(tgt[:-1]))
  c.check(err is not None and isinstance(err, ValueError),
          'length mismatch rejected')
  # a target whose events span several steps (performance time shifts) under a
  # control that counts one step per event: the wrapper reports the target's
  ped = c.mod('performance_encoder_decoder')
  poh = ped.PerformanceOneHotEncoding(num_velocity_bins=0, max_shift_steps=10)
  ptgt = ed.OneHotEventSequenceEncoderDecoder(poh)
  wrap = ed.ConditionalEventSequenceEncoderDecoder(cenc, ptgt)
  shift = c.int('shift', 1, 10)
  PE = c.mod('performance_lib').PerformanceEvent
  labs2 = [poh.encode_event(PE(PE.NOTE_ON, 60)),
           poh.encode_event(PE(PE.TIME_SHIFT, shift)),
           poh.encode_event(PE(PE.NOTE_OFF, 60))]
  c.check(c.eq(wrap.labels_to_num_steps(labs2), shift),
          'labels_to_num_steps of the wrapper = steps of the target sequence')
  c.check(wrap.default_event_label == ptgt.default_event_label,
          'default label of the wrapper = the target\'s')


def h_noteperf(c):
  ped = c.mod('performance_encoder_decoder')
  pl = c.mod('performance_lib')
  PE = pl.PerformanceEvent
  ms, md, nv = c.params['ms'], c.params['md'], c.params['nv']
  lo, hi = c.params['pitch']
  enc = ped.NotePerformanceEventSequenceEncoderDecoder(nv, ms, md, lo, hi)
  ncls = enc.num_classes
  sh = c.int('shift', 0, ms)
  pi = c.int('pitch', lo, hi)
  ve = c.int('vel', 1, nv)
  du = c.int('dur', 1, md)
  ev = (PE(PE.TIME_SHIFT, sh), PE(PE.NOTE_ON, pi), PE(PE.VELOCITY, ve),
        PE(PE.DURATION, du))
  label = enc.events_to_label([ev], 0)
  c.check(len(label) == 6, 'six sub-labels')
  for k in range(6):
    c.check(c.And(label[k] >= 0, label[k] < ncls[k]),
            'sub-label %d in [0, num_classes[%d])' % (k, k))
  back = enc.class_index_to_event(label, None)
  c.check(c.And([c.And(c.eq(a.event_type, b.event_type),
                       c.eq(a.event_value, b.event_value))
                 for a, b in zip(back, ev)]), 'decode(label) == event tuple')
  # arbitrary in-range label decodes to a tuple of valid events
  lab = [c.int('l%d' % k, 0, ncls[k] - 1) for k in range(6)]
  res, err = c.raises(enc.class_index_to_event, tuple(lab), None)
  c.check(err is None, 'every in-range label decodes')
  c.check(c.And(res[0].event_value >= 0, res[0].event_value <= ms,
                res[1].event_value >= lo, res[1].event_value <= hi,
                res[2].event_value >= 1, res[2].event_value <= nv,
                res[3].event_value >= 1, res[3].event_value <= md),
          'decoded tuple within the configured limits')
  c.check(c.And([c.eq(a, b) for a, b in zip(enc.events_to_label([res], 0), lab)]),
          'encode(decode(label)) == label')
  steps = enc.labels_to_num_steps([label, tuple(lab)])
  c.check(c.eq(steps, sh + res[0].event_value + res[3].event_value),
          'labels_to_num_steps = shifts + final duration')
  if c.params.get('input'):
    vec = enc.events_to_input([ev], 0)
    vec = list(vec.data) if hasattr(vec, 'data') else list(vec)
    c.check(len(vec) == enc.input_size, 'input vector has input_size entries')
    off = 0
    for k in range(6):
      c.check(_one_hot_block_ok(c, vec, off, ncls[k]) and
              vec[off + c.concretize(label[k])] == 1.0,
              'exactly one 1 in one-hot block %d' % k)
      off += ncls[k]


def h_modulo(c):
  ped = c.mod('performance_encoder_decoder')
  pl = c.mod('performance_lib')
  PE = pl.PerformanceEvent
  nv, ms = c.params['nv'], c.params['ms']
  enc = ped.ModuloPerformanceEventSequenceEncoderDecoder(nv, ms)
  et = c.params['etype']
  if et == PE.VELOCITY:
    v = c.int('value', 1, nv)
  elif et == PE.TIME_SHIFT:
    v = c.int('value', 1, ms)
  else:
    v = c.int('value', 0, 127)
  ev = PE(et, v)
  label = enc.events_to_label([ev], 0)
  n = enc.num_classes
  c.check(n == 256 + ms + nv, 'num_classes')
  c.check(c.And(label >= 0, label < n), 'label in [0, num_classes)')
  back = enc.class_index_to_event(label, [])
  c.check(c.And(c.eq(back.event_type, et), c.eq(back.event_value, v)),
          'decode(label) == event')
  vec = enc.events_to_input([ev], 0)
  c.check(len(vec) == enc.input_size, 'input vector has input_size entries')
  widths = [5, 5, 3] + ([3] if nv > 0 else [])
  c.check(enc.input_size == sum(widths), 'input_size')
  off = 0
  for k, (t, w) in enumerate(zip((PE.NOTE_ON, PE.NOTE_OFF, PE.TIME_SHIFT,
                                  PE.VELOCITY), widths)):
    blk = vec[off:off + w]
    if t == et:
      c.check(blk[0] == 1.0, 'valid bit of the event\'s own block')
      c.check(all(abs(blk[j]**2 + blk[j + 1]**2 - 1.0) < 1e-9
                  for j in range(1, w, 2)), 'embeddings lie on the unit circle')
    else:
      c.check(all(x == 0.0 for x in blk), 'other blocks are zero')
    off += w
  lab = c.int('label', 0, 2000)
  c.assume(lab < n)
  gen = enc.class_index_to_event(lab, [])
  c.check(c.eq(enc.events_to_label([gen], 0), lab), 'encode(decode(l)) == l')
  steps = enc.labels_to_num_steps([label, lab])
  exp = (v if et == PE.TIME_SHIFT else 0) + c.If(
      c.eq(gen.event_type, PE.TIME_SHIFT), gen.event_value, 0)
  c.check(c.eq(steps, exp), 'labels_to_num_steps = sum of the time shifts')
  # generation loop: the decoded event is accepted by a Performance
  perf = pl.Performance(steps_per_second=100, start_step=0,
                        num_velocity_bins=nv, max_shift_steps=ms)
  perf.append(ev)
  perf.append(gen)
  c.check(c.eq(perf.num_steps, exp),
          'steps of the generated sequence = labels_to_num_steps')


def h_pianoroll(c):
  ped = c.mod('pianoroll_encoder_decoder')
  W = c.params['W']
  enc = ped.PianorollEncoderDecoder(W)
  c.check(enc.num_classes == 2**W, 'num_classes')
  bits = [c.bool('b%d' % i) for i in range(W)]
  ev = tuple(i for i in range(W) if bool(bits[i]))
  label = enc.events_to_label([ev], 0)
  c.check(0 <= label < 2**W, 'label in [0, num_classes)')
  c.check(enc.class_index_to_event(label, []) == ev, 'decode(label) == event')
  vec = enc.events_to_input([ev], 0)
  vec = list(vec.data) if hasattr(vec, 'data') else list(vec)
  c.check(len(vec) == W and all((vec[i] == 1) == (i in ev) for i in range(W)),
          'input vector marks exactly the active pitches')
  lab = c.int('label', 0, 2**W - 1)
  gen = enc.class_index_to_event(lab, [])
  c.check(c.eq(enc.events_to_label([gen], 0), lab), 'encode(decode(l)) == l')
  c.check(all(0 <= p < W for p in gen) and list(gen) == sorted(set(gen)),
          'decoded event is a sorted tuple of in-range pitches')


def h_pianoroll_wide(c):
  """The default 88-key encoder: labels are sums of 2**pitch, far beyond the
  53-bit mantissa of a double.  K active pitches anywhere on the keyboard (the
  solver closes the choice), plus the all-keys label."""
  ped = c.mod('pianoroll_encoder_decoder')
  W, Kp = c.params.get('W', 88), c.params['K']
  enc = ped.PianorollEncoderDecoder(W)
  ps = [c.int('p%d' % i, 0, W - 1) for i in range(Kp)]
  for a, b in zip(ps, ps[1:]):
    c.assume(a < b)
  ev = tuple(c.concretize(p_) for p_ in ps)
  label = enc.events_to_label([ev], 0)
  c.check(0 <= label < enc.num_classes, 'label in [0, num_classes)')
  res, err = c.raises(enc.class_index_to_event, label, [])
  c.check(err is None and res == ev, 'decode(label) == event')
  full = 2**W - 1
  res, err = c.raises(enc.class_index_to_event, full, [])
  c.check(err is None and res == tuple(range(W)),
          'the all-keys label decodes to every pitch')
  c.cover('pitches more than 53 keys apart', ev[-1] - ev[0] > 53)


HARNESSES = {
    'h_pianoroll_wide': h_pianoroll_wide,
    'h_lookback': h_lookback,
    'h_lookback_input': h_lookback_input,
    'h_onehot': h_onehot,
    'h_generation_step': h_generation_step,
    'h_extend': h_extend,
    'h_keymelody': h_keymelody,
    'h_keymelody_input': h_keymelody_input,
    'h_conditional': h_conditional,
    'h_noteperf': h_noteperf,
    'h_modulo': h_modulo,
    'h_pianoroll': h_pianoroll,
}


def jobs(tier):
  J = []

  def add(h, budget=200, required=True, **params):
    J.append({'harness': h, 'params': params, 'budget_s': budget,
              'required': required})

  deep = tier == 'thorough'
  Lq = 4
  for p in range(Lq):
    for nl in (0, 1, 2):
      add('h_lookback', L=Lq, p=p, nl=nl)
  add('h_lookback_input', L=3, p=2, nl=2, small_alphabet=True, dmax=2)
  add('h_lookback_input', L=3, p=0, nl=1, small_alphabet=True, dmax=2)
  add('h_onehot', L=2, small_alphabet=True)
  for encn in ('lookback', 'keymelody', 'onehot'):
    for H in (0, 1, 3):
      add('h_generation_step', enc=encn, H=H, nl=2 if encn != 'onehot' else 0)
  # the generation helper: first step after a primer (T = primer length) and
  # later steps (T = 1), beam of 2
  add('h_extend', enc='onehot', H=2, T=2)
  add('h_extend', enc='onehot', H=1, T=1)
  add('h_extend', enc='lookback', H=3, T=3, B=1, budget=600)
  add('h_extend', enc='lookback', H=2, T=1, budget=600)
  for p in range(Lq):
    add('h_keymelody', L=Lq, p=p, nl=2)
  add('h_keymelody', L=2, p=1, nl=1)
  add('h_keymelody_input', L=2, p=1, nl=1, budget=600)
  add('h_conditional', L=2, small_alphabet=True)
  add('h_noteperf', ms=1000, md=1000, nv=32, pitch=[0, 127])
  add('h_noteperf', ms=99, md=100, nv=127, pitch=[21, 108])
  add('h_noteperf', ms=5, md=6, nv=2, pitch=[60, 61], input=True)
  for et in (1, 2, 3, 4):
    add('h_modulo', nv=4, ms=10, etype=et)
  add('h_modulo', nv=0, ms=8, etype=3)
  add('h_pianoroll', W=3)
  add('h_pianoroll', W=4)
  add('h_pianoroll_wide', K=1)
  add('h_pianoroll_wide', K=2, budget=600)
  if deep:
    for L in (5, 6):
      for p in range(L):
        add('h_lookback', L=L, p=p, nl=2, budget=900)
    for p in range(8):
      add('h_lookback', L=8, p=p, nl=2, alphabet=3, dmax=3, budget=1800)
      add('h_lookback', L=8, p=p, nl=3, alphabet=3, dmax=3, budget=2400,
          required=False)
    for p in range(4):
      add('h_lookback_input', L=4, p=p, nl=2, budget=1800, small_alphabet=True,
          dmax=3)
    add('h_onehot', L=3, budget=900, small_alphabet=True)
    add('h_onehot', L=1, budget=900)
    for encn in ('lookback', 'keymelody'):
      add('h_generation_step', enc=encn, H=4, nl=2, budget=900)
    for p in range(6):
      add('h_keymelody', L=6, p=p, nl=2, budget=900)
    add('h_keymelody_input', L=3, p=2, nl=2, budget=3000, required=False)
    add('h_conditional', L=3, budget=1800, small_alphabet=True)
    add('h_noteperf', ms=11, md=12, nv=3, pitch=[60, 62], input=True, budget=1800)
    add('h_noteperf', ms=399, md=400, nv=64, pitch=[0, 127])
    add('h_modulo', nv=32, ms=100, etype=3, budget=900)
    add('h_pianoroll', W=6, budget=900)
  return J
