"""C16 -- decoding arbitrary bytes as MIDI fails only with MIDIConversionError
(contract level: the byte parser is a nondeterministic stub)."""
import os
import tempfile
import types

from props import common as K

META = {
    'level': 'other',
    'level_text':
        'bytes -> PrettyMIDI is mido/pretty_midi/struct code that no symbolic '
        'engine here can enter, so it is replaced by a NONDETERMINISTIC STUB '
        'constrained only by a stated contract K: the constructor either '
        'raises an arbitrary exception object (any Exception subclass, or a '
        'BaseException that is not an Exception) or returns an arbitrary '
        'object whose fields lie in the ranges mido/pretty_midi can produce '
        '(symbolic resolution, time-signature numerator and denominator 2^k '
        'with k up to 255, key number, tempo arrays, program, pitches, '
        'velocities, times). Given K, the real midi_to_note_sequence is '
        'executed symbolically and the solver shows that the only exception '
        'type that escapes is MIDIConversionError and that every returned '
        'sequence is well-formed. symproto raises ValueError on int32 '
        'overflow exactly like upb, which makes the denominator clause '
        'non-trivial.',
    'level_note':
        'Trusted: z3, symproto (int32 range checks, validated against upb), '
        'and the contract K itself, which is an assumption about mido / '
        'pretty_midi derived from their message specs and container '
        'validators. Anything that needs real bytes (truncations, running '
        'status, the MAX_TICK = 1e10 allocation hazard) is outside the claim.',
    'explanation':
        'Stub-contract level: exception-type closure, result '
        'well-formedness and event-by-event conversion (counts, field '
        'values, header, total_time, instrument names) of '
        'note_seq.midi_io.midi_to_note_sequence, its file variant and the '
        'two renamed aliases, for every constructor outcome allowed by '
        'contract K and for a populated PrettyMIDI object handed over '
        'directly; the byte parser itself is not analysed.',
    'functions': [('midi_io', 'midi_to_note_sequence'),
                  ('midi_io', 'midi_file_to_note_sequence'),
                  ('midi_io', 'midi_to_sequence_proto'),
                  ('midi_io', 'midi_file_to_sequence_proto')],
    'assumptions': [
        'contract K for PrettyMIDI(<bytes>): raises any exception object OR '
        'returns an object with resolution in [-32768,32767] minus 0 (negative '
        '= SMPTE division: then later tempo-change times are <= 0); time '
        'signatures with '
        'numerator in [1,255], denominator 2^k (k in [0,255]), time >= 0; '
        'key_number in [0,23]; equal-length tempo arrays with qpm > 0 and '
        'times >= 0; instruments with program in [0,127], notes with pitch and '
        'velocity in [0,127] and 0 <= start <= end; bends in [-8192,8191]; '
        'control number/value in [0,127]; all times >= 0',
        'shape of the returned object: 0-2 time signatures, 0-2 key '
        'signatures, 1-3 tempos, 0-2 instruments with 0-3 notes, 1 bend and 1 '
        'control change each (the jobs list has the combinations)',
        'contract K also says: tempo-change ticks of a parsed file are below '
        'the MAX_TICK midi_io configures (1e10), and get_tempo_changes raises '
        'IndexError for a tick at or above the MAX_TICK in force when it is '
        'CALLED (pretty_midi.tick_to_time)',
        'a PrettyMIDI object passed directly (via=object) obeys the same '
        'ranges except that resolution may be 0 (get_tempo_changes then '
        'raises ZeroDivisionError, as pretty_midi does) and, in the badkey '
        'job, key_number is outside [0,23] (documented: MIDIConversionError)',
        'file variants are called with the path of a readable temporary file '
        'holding the bytes; a text string is only required not to leak '
        'another exception type (h_text)',
        'oracle for values: pretty_midi key numbers 0..11 major / 12..23 '
        'minor with tonic = number % 12; total_time = latest note end (0 '
        'without notes); an instrument_info for every non-empty track name; '
        'storage order of the converted events is not prescribed',
    ],
    'bounds': {'quick': 'main job: denominator exponents {0,1,2,3,7,8,30,31,'
                        '32,63,64,255}, key numbers {0,11,12,23}, names from 4 '
                        'strings, bytes/bytearray/memoryview; slim jobs: '
                        'exponents {2,30,31,64}, keys {11,12}, 2 names, bytes; '
                        'all 24 keys and all 256 exponents on small files; '
                        '14 parser exception kinds x 4 entry points; second '
                        'call after a failed one; everything else symbolic',
               'thorough': 'all exponents 0..255 and key numbers 0..23; 2 '
                           'instruments'},
    'outside': ['everything that depends on the actual bytes',
                'missing / unreadable paths given to the file variants',
                'text of the MIDIConversionError message',
                'callers in melodies_lib / drums_lib'],
}


class _OddError(Exception):
  pass


class _NotAnException(BaseException):
  """A BaseException that is not an Exception (like KeyboardInterrupt)."""


_EXCS = {
    'ValueError': ValueError('bad header'),
    'IOError': IOError('truncated'),
    'EOFError': EOFError(),
    'KeyError': KeyError(7),
    'IndexError': IndexError('list index out of range'),
    'TypeError': TypeError('x'),
    'ZeroDivisionError': ZeroDivisionError(),
    'AssertionError': AssertionError(),
    'OverflowError': OverflowError(),
    'MemoryError': MemoryError(),
    'custom': _OddError('odd'),
    'base': _NotAnException(),
    # a message that is not plain ASCII text, and the codec error a text meta
    # event produces
    'nonascii': ValueError('d\xe9j\xe0 ♫'),
    'unicode': UnicodeDecodeError('utf-8', b'\xff', 0, 1, 'invalid start byte'),
}

# not text: bytes >= 0x80, NUL, and a CR LF that a text-mode read would alter
_RAW = (b'MThd\x00\x00\x00\x06\x00\x01\x00\x01\x01\xe0-not-\r\n-really'
        b'\xff\x2f\x00')

# the decoder under its four public names (the *_sequence_proto ones are the
# documented "renamed to" aliases); the file variants get a path
_ENTRIES = ['midi_to_note_sequence', 'midi_to_sequence_proto',
            'midi_file_to_note_sequence', 'midi_file_to_sequence_proto']


def _install(c, mio, plan):
  """Makes PrettyMIDI(<file>) inside midi_io behave according to `plan(self,
  file)`; returns a restore function."""
  if c.mode == 'sym':
    from engine import pmlite  # pylint: disable=g-import-not-at-top
    from engine import symproto  # pylint: disable=g-import-not-at-top
    old = pmlite.FROM_FILE[0]
    old_strict = symproto.STRICT_INT_RANGE[0]
    symproto.STRICT_INT_RANGE[0] = True

    def from_file(self, f):
      plan(self, f)

    pmlite.FROM_FILE[0] = from_file

    def restore():
      pmlite.FROM_FILE[0] = old
      symproto.STRICT_INT_RANGE[0] = old_strict

    return restore
  real = mio.pretty_midi

  class Stub(real.PrettyMIDI):

    def __init__(self, midi_file=None, **kw):
      if midi_file is None:
        real.PrettyMIDI.__init__(self, **kw)
        return
      real.PrettyMIDI.__init__(self)
      plan(self, midi_file)

  ns = types.SimpleNamespace(**{k: getattr(real, k) for k in dir(real)
                                if not k.startswith('__')})
  ns.PrettyMIDI = Stub
  mio.pretty_midi = ns

  def restore():
    mio.pretty_midi = real

  return restore


def _data(c, slim=False):
  """The byte string in one of the standard containers of bytes."""
  raw = _RAW
  if slim:
    return raw
  return c.choice('container', [raw, bytearray(raw), memoryview(raw)])


def _drain(f):
  """What the parser can read from the thing it was handed."""
  if hasattr(f, 'read'):
    return f.read()
  return f


def _call(mio, entry, data):
  """Calls the decoder by the public name `entry`; the file variants receive
  the bytes through a file on disk."""
  fn = getattr(mio, entry)
  if 'file' not in entry:
    return fn(data)
  fd, path = tempfile.mkstemp(suffix='.mid')
  try:
    os.write(fd, bytes(data))
    os.close(fd)
    return fn(path)
  finally:
    os.unlink(path)


def _guarded(c, mio, entry, data):
  """(result, exception) of one decoder call; engine signals pass through."""
  try:
    return _call(mio, entry, data), None
  except BaseException as e:  # pylint: disable=broad-except
    if type(e).__module__.startswith('engine'):
      raise
    return None, e


def h_raises(c):
  mio = c.mod('midi_io')
  exc = _EXCS[c.params['exc']]
  seen = []

  def plan(self, f):
    seen.append(_drain(f))
    raise exc

  entry = c.choice('entry', _ENTRIES)
  data = _data(c)
  restore = _install(c, mio, plan)
  try:
    res, err = _guarded(c, mio, entry, data)
  finally:
    restore()
  c.check(err is not None and isinstance(err, mio.MIDIConversionError),
          'a failing parser surfaces as MIDIConversionError and nothing else')
  c.check(len(seen) == 1 and bytes(seen[0]) == _RAW,
          'the parser is handed the complete file contents')


def h_text(c):
  """`midi_data: A string containing the contents of a MIDI file`: a text
  string (what "a string" is today) must not make anything but the documented
  exception escape, whether or not it is accepted."""
  mio = c.mod('midi_io')

  def plan(self, f):
    self.resolution = 220
    self.time_signature_changes = []
    self.key_signature_changes = []
    self.instruments = []
    self.get_tempo_changes = lambda: ([0], [120.0])

  entry = c.choice('entry', _ENTRIES[:2])
  restore = _install(c, mio, plan)
  try:
    res, err = _guarded(c, mio, entry, _RAW.decode('latin-1'))
  finally:
    restore()
  c.check(err is None or isinstance(err, mio.MIDIConversionError),
          'only MIDIConversionError escapes for a text string')
  c.cover('text string rejected', err is not None)


def _per_instrument(x, I):
  return list(x) if isinstance(x, (tuple, list)) else [x] * I


def h_object(c):
  mio = c.mod('midi_io')
  pmod = c.pm
  P = c.params
  I = P['I']
  NN = _per_instrument(P.get('N', 2), I)  # notes per instrument
  TS, KS, TP = P.get('ts', 1), P.get('ks', 1), P.get('tp', 2)
  slim = P.get('slim', False)
  # how the parsed object reaches the converter: 'bytes' = through the parser
  # stub, 'entries' = the same through any of the four public names, 'object'
  # = a populated PrettyMIDI object handed over directly (documented input)
  via = P.get('via', 'bytes')
  as_object = via == 'object'
  badkey = P.get('badkey', False)
  vals = {}
  # the header's division is a signed 16-bit field: negative for SMPTE timing
  # (zero makes the parser fail with ZeroDivisionError, i.e. it raises; a
  # hand-built object can carry a zero)
  vals['res'] = c.int('res', -32768, 32767)
  if not as_object:
    c.assume(c.Not(c.eq(vals['res'], 0)))
  k_quick = [2, 30, 31, 64] if slim else [0, 1, 2, 3, 7, 8, 30, 31, 32, 63, 64,
                                          255]
  tsigs = []
  for j in range(TS):
    pre = 'ts' if j == 0 else 'ts%d' % j
    n = c.int(pre + '_n', 1, 255)
    if P.get('full_k') or P.get('all_k'):
      k = c.concretize(c.int(pre + '_k', 0, 255))
    else:
      k = c.choice(pre + '_k', k_quick)
    tsigs.append((n, k, c.real(pre + '_t', 0)))
  keys = []
  for j in range(KS):
    pre = 'key' if j == 0 else 'key%d' % j
    if badkey:
      # outside what KeySignature's validator admits; only reachable on a
      # hand-built object whose attribute was assigned afterwards
      kn = c.int(pre, -128, 255)
      c.assume(c.Or(kn < 0, kn > 23))
    elif P.get('full_k') or P.get('all_keys'):
      kn = c.concretize(c.int(pre, 0, 23))
    else:
      kn = c.choice(pre, [11, 12] if slim else [0, 11, 12, 23])
    keys.append((kn, c.real(pre + '_t', 0)))
  tempo_ticks = [c.int('tp%d_tick' % i, 0, 10**10 - 1) for i in range(TP)]
  # tempo-change times are tick * 60 / (qpm * resolution): the first is 0, a
  # later one is negative exactly when the resolution is (times of notes and
  # other events are checked >= 0 by the parser itself)
  tempo_t = [0] + [c.real('tp%d_t' % i) for i in range(1, TP)]
  for t in tempo_t[1:]:
    c.assume(c.If(vals['res'] > 0, t >= 0, t <= 0))
  tempo_q = [c.real('tp%d_q' % i) for i in range(TP)]
  for q in tempo_q:
    c.assume(q > 0)
  insts = []
  for i in range(I):
    d = dict(program=c.int('i%d_g' % i, 0, 127),
             drum=c.concretize(c.bool('i%d_d' % i)), notes=[])
    for j in range(NN[i]):
      s = c.real('i%dn%d_s' % (i, j), 0)
      e = c.real('i%dn%d_e' % (i, j))
      c.assume(e >= s)
      d['notes'].append((c.int('i%dn%d_v' % (i, j), 0, 127),
                         c.int('i%dn%d_p' % (i, j), 0, 127), s, e))
    d['name'] = c.choice('i%d_name' % i,
                         ['', 'Fl\xf6te%d' % i] if slim else
                         ['trk', '', 'Fl\xf6te', 'Fl\xc3\xb6te'])
    d['bend'] = (c.int('i%db' % i, -8192, 8191), c.real('i%db_t' % i, 0))
    d['cc'] = (c.int('i%dc_n' % i, 0, 127), c.int('i%dc_v' % i, 0, 127),
               c.real('i%dc_t' % i, 0))
    insts.append(d)
  seen = []

  def plan(self, f):
    if f is not None:
      seen.append(_drain(f))
    self.resolution = vals['res']
    self.time_signature_changes = [
        pmod.containers.TimeSignature(n if c.mode == 'sym' else int(n), 2**k, t)
        for (n, k, t) in tsigs]
    self.key_signature_changes = []
    for (kn, t) in keys:
      if badkey:
        ks = pmod.containers.KeySignature(0, t)
        ks.key_number = kn
      else:
        ks = pmod.containers.KeySignature(kn, t)
      self.key_signature_changes.append(ks)
    self.instruments = []
    for d in insts:
      # track names come out of the parser decoded as latin-1: ASCII, empty and
      # a name that is not valid UTF-8 when re-encoded
      ins = pmod.Instrument(d['program'], d['drum'], d.get('name', 'trk'))
      for (v, p, s, e) in d['notes']:
        ins.notes.append(pmod.Note(v, p, s, e))
      ins.pitch_bends.append(pmod.PitchBend(*d['bend']))
      ins.control_changes.append(pmod.ControlChange(*d['cc']))
      self.instruments.append(ins)
    def check_ticks():
      # PrettyMIDI.get_tempo_changes converts ticks with tick_to_time, which
      # raises IndexError for a tick >= pretty_midi.pretty_midi.MAX_TICK (the
      # value in force at the time of the CALL); the constructor only admits
      # files whose last tick is below the limit midi_io configures (1e10)
      limit = mio.pretty_midi.pretty_midi.MAX_TICK
      for tk in tempo_ticks:
        if tk >= limit:
          raise IndexError('Supplied tick is too large.')
      # ... and then computes 60.0 / (tick_scale * resolution)
      if vals['res'] == 0:
        raise ZeroDivisionError('float division by zero')

    if c.mode == 'sym':
      def gtc():
        check_ticks()
        return list(tempo_t), list(tempo_q)
    else:
      np = c.np

      def gtc():
        check_ticks()
        return np.array(tempo_t), np.array(tempo_q)
    self.get_tempo_changes = gtc

  if via == 'entries':
    entry = c.choice('entry', _ENTRIES)
  else:
    entry = _ENTRIES[0]
  if P.get('prior_fail'):
    # an undecodable file first: the conversion that follows must not be
    # affected by it
    def bad_plan(self, f):
      raise ValueError('bad header')

    restore = _install(c, mio, bad_plan)
    try:
      _, err0 = _guarded(c, mio, entry, _RAW)
    finally:
      restore()
    c.check(err0 is not None and isinstance(err0, mio.MIDIConversionError),
            'a failing parser surfaces as MIDIConversionError and nothing else')
  restore = _install(c, mio, plan)
  try:
    if as_object:
      data = mio.pretty_midi.PrettyMIDI()
      plan(data, None)
    else:
      data = _data(c, slim or via == 'entries')
    res, err = _guarded(c, mio, entry, data)
  finally:
    restore()
  if not as_object:
    c.check(len(seen) == 1 and bytes(seen[0]) == _RAW,
            'the parser is handed the complete file contents')
  too_big = any(2**k > 2**31 - 1 for (_, k, _) in tsigs)
  smpte = c.concretize(vals['res'] < 0)
  zero_res = as_object and c.concretize(c.eq(vals['res'], 0))
  if err is not None:
    c.check(isinstance(err, mio.MIDIConversionError),
            'only MIDIConversionError escapes')
    c.check(too_big or smpte or zero_res or (badkey and KS > 0),
            'raised although every field fits the '
            'NoteSequence and the division is metrical')
    c.cover('denominator beyond int32 rejected', too_big)
    c.cover('SMPTE division rejected', smpte)
    if as_object and not badkey:
      c.cover('zero division rejected', zero_res)
    if badkey:
      c.cover('improper key mode rejected',
              not (too_big or smpte or zero_res))
    return
  c.check(isinstance(res, c.pb.NoteSequence), 'returns a NoteSequence')
  c.check(not too_big, 'a denominator beyond int32 was accepted')
  if badkey and KS > 0:
    c.check(False, 'an improper MIDI mode was accepted')
  conds = []
  for n in res.notes:
    conds.append(c.And(n.start_time >= 0, n.start_time <= n.end_time,
                       n.end_time <= res.total_time, n.pitch >= 0,
                       n.pitch <= 127, n.velocity >= 0, n.velocity <= 127))
  for name in ('time_signatures', 'key_signatures', 'tempos', 'pitch_bends',
               'control_changes'):
    for e in getattr(res, name):
      conds.append(e.time >= 0)
  c.check(len(res.notes) == sum(NN), 'every note converted')
  c.check(c.And(conds), 'returned sequence is well-formed')
  c.cover('accepted')
  # ---- "Convert MIDI file contents to a NoteSequence": one entry per parsed
  # event, carrying the parsed values (storage order is not prescribed)
  pb = c.pb
  c.check(len(res.time_signatures) == TS and len(res.key_signatures) == KS and
          len(res.tempos) == TP and len(res.pitch_bends) == I and
          len(res.control_changes) == I,
          'one entry per parsed event')
  exp = []
  ends = []
  for i, d in enumerate(insts):
    for (v, p, s, e) in d['notes']:
      exp.append((True, (p, v, s, e, i, d['program'], d['drum'])))
      ends.append(e)
  got = [(n.pitch, n.velocity, n.start_time, n.end_time, n.instrument,
          n.program, n.is_drum) for n in res.notes]
  c.check(K.multiset_eq(c, got, exp), 'notes carry the parsed values')
  # "set the sequence.total_time as the max end time in the notes"
  c.check(c.eq(res.total_time, c.Max(ends) if ends else 0),
          'total_time is the latest note end')
  c.check(K.multiset_eq(
      c, [(b.time, b.bend, b.instrument, b.program, b.is_drum)
          for b in res.pitch_bends],
      [(True, (d['bend'][1], d['bend'][0], i, d['program'], d['drum']))
       for i, d in enumerate(insts)]) and K.multiset_eq(
           c, [(x.time, x.control_number, x.control_value, x.instrument,
                x.program, x.is_drum) for x in res.control_changes],
           [(True, (d['cc'][2], d['cc'][0], d['cc'][1], i, d['program'],
                    d['drum'])) for i, d in enumerate(insts)]),
          'bends and control changes carry the parsed values')
  SI = pb.NoteSequence.SourceInfo
  c.check(c.And(c.eq(res.ticks_per_quarter, vals['res']),
                c.eq(res.source_info.parser, SI.PRETTY_MIDI),
                c.eq(res.source_info.encoding_type, SI.MIDI)),
          'header: resolution and provenance')
  KSig = pb.NoteSequence.KeySignature
  # pretty_midi: key numbers 0..11 are major, 12..23 minor, tonic = number % 12
  c.check(c.And(
      K.multiset_eq(c, [(x.time, x.numerator, x.denominator)
                        for x in res.time_signatures],
                    [(True, (t, n, 2**k)) for (n, k, t) in tsigs]),
      K.multiset_eq(c, [(x.time, x.key, x.mode) for x in res.key_signatures],
                    [(True, (t, kn if kn < 12 else kn - 12,
                             KSig.MAJOR if kn < 12 else KSig.MINOR))
                     for (kn, t) in keys]),
      K.multiset_eq(c, [(x.time, x.qpm) for x in res.tempos],
                    [(True, (tempo_t[i], tempo_q[i])) for i in range(TP)])),
          'time signatures, keys and tempos carry the parsed values')
  # "Populate instrument name from the midi's instruments"
  infos = [(x.instrument, x.name) for x in res.instrument_infos]
  named = [(i, d['name']) for i, d in enumerate(insts)]
  c.check(all(sum(1 for x in infos if x == nm) == 1
              for nm in named if nm[1]) and
          all(x in named for x in infos),
          'instrument names are attached to their instruments')


HARNESSES = {'h_raises': h_raises, 'h_object': h_object, 'h_text': h_text}


def jobs(tier):
  J = []

  def add(h, budget=600, required=True, **params):
    J.append({'harness': h, 'params': params, 'budget_s': budget,
              'required': required})

  for name in _EXCS:
    add('h_raises', exc=name)
  add('h_text')
  add('h_object', I=1)
  # the populated-object input (resolution 0 included)
  add('h_object', I=1, via='object')
  add('h_object', I=1, via='object', badkey=True, slim=True)
  # file variants and renamed aliases
  add('h_object', I=1, via='entries', slim=True)
  # other shapes of the parsed file: empty, note-less track, several
  # signatures / tempos, two tracks of different lengths
  add('h_object', I=0, ts=0, ks=0, tp=1)
  add('h_object', I=1, N=0, ks=0, tp=1, slim=True)
  add('h_object', I=1, N=3, ts=2, ks=2, tp=3, slim=True)
  add('h_object', I=2, N=(1, 2), slim=True)
  add('h_object', I=2, N=(2, 0), tp=1, slim=True)
  # every key number / every denominator exponent, on otherwise small files
  add('h_object', I=1, N=1, all_keys=True, slim=True)
  add('h_object', I=0, ks=0, tp=1, all_k=True)
  # a good file after an undecodable one
  add('h_object', I=1, prior_fail=True, slim=True)
  # FINDING-CANDIDATE (docstring level, not a byte string, so not a job):
  # midi_file_to_note_sequence('/nonexistent/x.mid') raises FileNotFoundError
  # (a directory: IsADirectoryError) although its docstring lists
  # "MIDIConversionError: Invalid midi_file"; open() sits outside any guard.
  if tier == 'thorough':
    # the two widest object shapes take 50+ min each since every field of the
    # result is compared (conversion fidelity): optional
    add('h_object', I=1, full_k=True, budget=3000, required=False)
    add('h_object', I=2, budget=3000, required=False)
  return J
