"""C16 -- decoding arbitrary bytes as MIDI fails only with MIDIConversionError
(contract level: the byte parser is a nondeterministic stub)."""
import types

META = {
    'level': 'other',
    'level_text':
        'bytes -> PrettyMIDI is mido/pretty_midi/struct code that no symbolic '
        'engine here can enter, so it is replaced by a NONDETERMINISTIC STUB '
        'constrained only by a stated contract K: the constructor either '
        'raises an arbitrary exception object (any Exception subclass, or a '
        'BaseException that is not an Exception) or returns an arbitrary '
        'object whose fields lie in the ranges mido/pretty_midi can produce '
        '(symbolic resolution, time-signature numerator and denominator 2^k '
        'with k up to 255, key number, tempo arrays, program, pitches, '
        'velocities, times). Given K, the real midi_to_note_sequence is '
        'executed symbolically and the solver shows that the only exception '
        'type that escapes is MIDIConversionError and that every returned '
        'sequence is well-formed. symproto raises ValueError on int32 '
        'overflow exactly like upb, which makes the denominator clause '
        'non-trivial.',
    'level_note':
        'Trusted: z3, symproto (int32 range checks, validated against upb), '
        'and the contract K itself, which is an assumption about mido / '
        'pretty_midi derived from their message specs and container '
        'validators. Anything that needs real bytes (truncations, running '
        'status, the MAX_TICK = 1e10 allocation hazard) is outside the claim.',
    'explanation':
        'Stub-contract level: exception-type closure and result '
        'well-formedness of note_seq.midi_io.midi_to_note_sequence for every '
        'constructor outcome allowed by contract K; the byte parser itself is '
        'not analysed.',
    'functions': [('midi_io', 'midi_to_note_sequence')],
    'assumptions': [
        'contract K for PrettyMIDI(<bytes>): raises any exception object OR '
        'returns an object with resolution in [-32768,32767] minus 0 (negative '
        '= SMPTE division: then later tempo-change times are <= 0); time '
        'signatures with '
        'numerator in [1,255], denominator 2^k (k in [0,255]), time >= 0; '
        'key_number in [0,23]; equal-length tempo arrays with qpm > 0 and '
        'times >= 0; instruments with program in [0,127], notes with pitch and '
        'velocity in [0,127] and 0 <= start <= end; bends in [-8192,8191]; '
        'control number/value in [0,127]; all times >= 0',
        'shape of the returned object: 1 time signature, 1 key signature, 2 '
        'tempos, 1-2 instruments with 2 notes, 1 bend and 1 control change '
        'each',
        'contract K also says: tempo-change ticks of a parsed file are below '
        'the MAX_TICK midi_io configures (1e10), and get_tempo_changes raises '
        'IndexError for a tick at or above the MAX_TICK in force when it is '
        'CALLED (pretty_midi.tick_to_time)',
    ],
    'bounds': {'quick': 'denominator exponents {0,1,2,3,7,8,30,31,32,63,64,255}, '
                        'key numbers {0,11,12,23}; everything else symbolic',
               'thorough': 'all exponents 0..255 and key numbers 0..23; 2 '
                           'instruments'},
    'outside': ['everything that depends on the actual bytes'],
}


class _OddError(Exception):
  pass


class _NotAnException(BaseException):
  """A BaseException that is not an Exception (like KeyboardInterrupt)."""


_EXCS = {
    'ValueError': ValueError('bad header'),
    'IOError': IOError('truncated'),
    'EOFError': EOFError(),
    'KeyError': KeyError(7),
    'IndexError': IndexError('list index out of range'),
    'TypeError': TypeError('x'),
    'ZeroDivisionError': ZeroDivisionError(),
    'AssertionError': AssertionError(),
    'OverflowError': OverflowError(),
    'MemoryError': MemoryError(),
    'custom': _OddError('odd'),
    'base': _NotAnException(),
}


def _install(c, mio, plan):
  """Makes PrettyMIDI(<file>) inside midi_io behave according to `plan`;
  returns a restore function."""
  if c.mode == 'sym':
    from engine import pmlite  # pylint: disable=g-import-not-at-top
    from engine import symproto  # pylint: disable=g-import-not-at-top
    old = pmlite.FROM_FILE[0]
    old_strict = symproto.STRICT_INT_RANGE[0]
    symproto.STRICT_INT_RANGE[0] = True

    def from_file(self, f):
      plan(self)

    pmlite.FROM_FILE[0] = from_file

    def restore():
      pmlite.FROM_FILE[0] = old
      symproto.STRICT_INT_RANGE[0] = old_strict

    return restore
  real = mio.pretty_midi

  class Stub(real.PrettyMIDI):

    def __init__(self, midi_file=None, **kw):
      if midi_file is None:
        real.PrettyMIDI.__init__(self, **kw)
        return
      real.PrettyMIDI.__init__(self)
      plan(self)

  ns = types.SimpleNamespace(**{k: getattr(real, k) for k in dir(real)
                                if not k.startswith('__')})
  ns.PrettyMIDI = Stub
  mio.pretty_midi = ns

  def restore():
    mio.pretty_midi = real

  return restore


def _data(c):
  """The byte string in one of the standard containers of bytes."""
  raw = b'MThd-not-really'
  return c.choice('container', [raw, bytearray(raw), memoryview(raw)])


def h_raises(c):
  mio = c.mod('midi_io')
  exc = _EXCS[c.params['exc']]

  def plan(self):
    raise exc

  restore = _install(c, mio, plan)
  try:
    try:
      res, err = mio.midi_to_note_sequence(_data(c)), None
    except BaseException as e:  # pylint: disable=broad-except
      if type(e).__module__.startswith('engine'):
        raise
      res, err = None, e
  finally:
    restore()
  c.check(err is not None and isinstance(err, mio.MIDIConversionError),
          'a failing parser surfaces as MIDIConversionError and nothing else')


def h_object(c):
  mio = c.mod('midi_io')
  pmod = c.pm
  I = c.params['I']
  vals = {}
  # the header's division is a signed 16-bit field: negative for SMPTE timing
  # (zero makes the parser fail with ZeroDivisionError, i.e. it raises)
  vals['res'] = c.int('res', -32768, 32767)
  c.assume(c.Not(c.eq(vals['res'], 0)))
  vals['ts_n'] = c.int('ts_n', 1, 255)
  if c.params.get('full_k'):
    vals['ts_k'] = c.concretize(c.int('ts_k', 0, 255))
  else:
    vals['ts_k'] = c.choice('ts_k', [0, 1, 2, 3, 7, 8, 30, 31, 32, 63, 64, 255])
  vals['ts_t'] = c.real('ts_t', 0)
  if c.params.get('full_k'):
    vals['key'] = c.concretize(c.int('key', 0, 23))
  else:
    vals['key'] = c.choice('key', [0, 11, 12, 23])
  vals['key_t'] = c.real('key_t', 0)
  tempo_ticks = [c.int('tp%d_tick' % i, 0, 10**10 - 1) for i in range(2)]
  # tempo-change times are tick * 60 / (qpm * resolution): the first is 0, a
  # later one is negative exactly when the resolution is (times of notes and
  # other events are checked >= 0 by the parser itself)
  tempo_t = [0, c.real('tp1_t')]
  c.assume(c.If(vals['res'] > 0, tempo_t[1] >= 0, tempo_t[1] <= 0))
  tempo_q = [c.real('tp%d_q' % i) for i in range(2)]
  for q in tempo_q:
    c.assume(q > 0)
  insts = []
  for i in range(I):
    d = dict(program=c.int('i%d_g' % i, 0, 127),
             drum=c.concretize(c.bool('i%d_d' % i)), notes=[])
    for j in range(2):
      s = c.real('i%dn%d_s' % (i, j), 0)
      e = c.real('i%dn%d_e' % (i, j))
      c.assume(e >= s)
      d['notes'].append((c.int('i%dn%d_v' % (i, j), 0, 127),
                         c.int('i%dn%d_p' % (i, j), 0, 127), s, e))
    d['name'] = c.choice('i%d_name' % i, ['trk', '', 'Fl\xf6te', 'Fl\xc3\xb6te'])
    d['bend'] = (c.int('i%db' % i, -8192, 8191), c.real('i%db_t' % i, 0))
    d['cc'] = (c.int('i%dc_n' % i, 0, 127), c.int('i%dc_v' % i, 0, 127),
               c.real('i%dc_t' % i, 0))
    insts.append(d)

  def plan(self):
    self.resolution = vals['res']
    self.time_signature_changes = [pmod.containers.TimeSignature(
        vals['ts_n'] if c.mode == 'sym' else int(vals['ts_n']),
        2**vals['ts_k'], vals['ts_t'])]
    self.key_signature_changes = [pmod.containers.KeySignature(vals['key'],
                                                               vals['key_t'])]
    self.instruments = []
    for d in insts:
      # track names come out of the parser decoded as latin-1: ASCII, empty and
      # a name that is not valid UTF-8 when re-encoded
      ins = pmod.Instrument(d['program'], d['drum'], d.get('name', 'trk'))
      for (v, p, s, e) in d['notes']:
        ins.notes.append(pmod.Note(v, p, s, e))
      ins.pitch_bends.append(pmod.PitchBend(*d['bend']))
      ins.control_changes.append(pmod.ControlChange(*d['cc']))
      self.instruments.append(ins)
    def check_ticks():
      # PrettyMIDI.get_tempo_changes converts ticks with tick_to_time, which
      # raises IndexError for a tick >= pretty_midi.pretty_midi.MAX_TICK (the
      # value in force at the time of the CALL); the constructor only admits
      # files whose last tick is below the limit midi_io configures (1e10)
      limit = mio.pretty_midi.pretty_midi.MAX_TICK
      for tk in tempo_ticks:
        if tk >= limit:
          raise IndexError('Supplied tick is too large.')

    if c.mode == 'sym':
      def gtc():
        check_ticks()
        return list(tempo_t), list(tempo_q)
    else:
      np = c.np

      def gtc():
        check_ticks()
        return np.array(tempo_t), np.array(tempo_q)
    self.get_tempo_changes = gtc

  restore = _install(c, mio, plan)
  try:
    try:
      res, err = mio.midi_to_note_sequence(_data(c)), None
    except BaseException as e:  # pylint: disable=broad-except
      if type(e).__module__.startswith('engine'):
        raise
      res, err = None, e
  finally:
    restore()
  too_big = 2**vals['ts_k'] > 2**31 - 1
  smpte = c.concretize(vals['res'] < 0)
  if err is not None:
    c.check(isinstance(err, mio.MIDIConversionError),
            'only MIDIConversionError escapes')
    c.check(too_big or smpte, 'raised although every field fits the '
                              'NoteSequence and the division is metrical')
    c.cover('denominator beyond int32 rejected', too_big)
    c.cover('SMPTE division rejected', smpte)
    return
  c.check(not too_big, 'a denominator beyond int32 was accepted')
  conds = []
  for n in res.notes:
    conds.append(c.And(n.start_time >= 0, n.start_time <= n.end_time,
                       n.end_time <= res.total_time, n.pitch >= 0,
                       n.pitch <= 127, n.velocity >= 0, n.velocity <= 127))
  for name in ('time_signatures', 'key_signatures', 'tempos', 'pitch_bends',
               'control_changes'):
    for e in getattr(res, name):
      conds.append(e.time >= 0)
  c.check(len(res.notes) == 2 * I, 'every note converted')
  c.check(c.And(conds), 'returned sequence is well-formed')
  c.cover('accepted')


HARNESSES = {'h_raises': h_raises, 'h_object': h_object}


def jobs(tier):
  J = []

  def add(h, budget=600, required=True, **params):
    J.append({'harness': h, 'params': params, 'budget_s': budget,
              'required': required})

  for name in _EXCS:
    add('h_raises', exc=name)
  add('h_object', I=1)
  if tier == 'thorough':
    add('h_object', I=1, full_k=True, budget=3000)
    add('h_object', I=2, budget=3000)
  return J
