"""C13 -- shift, stretch, concatenate, repeat, adjust and rectify move every
event consistently."""
import copy
from fractions import Fraction

from props import common as K

META = {
    'level': 'model_checking',
    'level_text':
        'The real shift/stretch/concatenate/repeat/adjust/rectify functions '
        'run on fully populated symbolic sequences (every repeated field '
        'present, all times and the shift/stretch/duration arguments free '
        'reals); on every path the solver shows the result equals the input '
        'copy with exactly the documented time map applied to every time '
        'field, plus the documented drops (redundant tempo/meter/key events, '
        'zero-length notes) and rejections, and that the input is unchanged.',
    'level_note':
        'Trusted: z3, reals for doubles, symproto and np-lite (interp/arange) '
        'validated per sampled path on the real stack. Time maps for '
        'adjust_notesequence_times are piecewise-linear closures with concrete '
        'slopes from a grid and symbolic breakpoint/offset.',
    'functions': [('sequences_lib', 'shift_sequence_times'),
                  ('sequences_lib', 'stretch_note_sequence'),
                  ('sequences_lib', 'concatenate_sequences'),
                  ('sequences_lib', 'remove_redundant_data'),
                  ('sequences_lib', 'repeat_sequence_to_duration'),
                  ('sequences_lib', 'adjust_notesequence_times'),
                  ('sequences_lib', 'rectify_beats')],
    'assumptions': [
        'double fields are exact reals',
        'well-formed inputs (0 <= start <= end <= total_time, event times >= 0)',
        'stretch and adjust: section annotations are not asserted either way '
        '(the code does not move them, the docstring of adjust says they are '
        'ignored, the statement says every event moves); stretch inputs carry '
        'none',
        'rectify: times past total_time (right of the interpolation grid) and '
        'repeat: events exactly on the cut are not asserted',
        'concatenate with an empty durations list, repeat with '
        'sequence_duration=0 (both falsy, treated as absent) are not run',
    ],
    'bounds': {
        'quick': 'shift/stretch: 1-2 notes + one or two events of every kind, '
                 'section groups, stretch in_place (also twice on one object), '
                 'both kinds of quantization rejected; '
                 'concatenate: 1-2 full pieces x 1 note (every event kind, '
                 'symbolic meter denominator / key mode / ticks_per_quarter / '
                 'instrument, program, drum flag), 3-5 lean pieces, A-B-A '
                 'tempo / key / meter / mode over 3 pieces, metadata dedupe '
                 'over 2 pieces; '
                 'repeat: <=3 copies, tempo + key signature + pedal change; '
                 'adjust: 1-2 notes, slopes from {0,1/2,1,2,-1}, '
                 'minimum_duration absent / 0 / positive with 1-2 notes, two '
                 'events of every kind; '
                 'rectify: <=2 beats, bpm in {60,97,120}, one event of every '
                 'other kind incl. a non-beat annotation, alignment array',
        'thorough': 'concatenate 3 full pieces, 2 pieces x 2 notes; adjust 1 '
                    'note x all slope pairs, 2 notes x selected pairs (also '
                    'with two events of every kind); rectify 3 beats',
    },
    'outside': ['more events than the bounds', 'float rounding',
                'symbolic slopes of the time map',
                'merge_sequences / expand_section_groups (other callers of '
                'the same machinery)'],
}

_EVENT_FIELDS = ('time_signatures', 'key_signatures', 'tempos', 'pitch_bends',
                 'control_changes', 'text_annotations')


def _map_times(c, exp, f, fields):
  for n in exp.notes:
    n.start_time = f(n.start_time)
    n.end_time = f(n.end_time)
  for name in fields:
    for e in getattr(exp, name):
      e.time = f(e.time)


def _second_events(c, ns, info, section=True, shared=False):
  """A second event of every kind (own symbolic time and payload, stored after
  the first), so that a loop that stops after the first element shows."""
  st = [None]

  def t(name):
    if shared:
      if st[0] is None:
        st[0] = c.real('x_t', 0)
      return st[0]
    return c.real(name, 0)

  ev = info['events']
  x = t('ts2_t')
  ns.time_signatures.add(time=x, numerator=c.int('ts2_n', 1, 12), denominator=8)
  ev.append(('time_signatures', 1, x))
  x = t('ks2_t')
  ns.key_signatures.add(time=x, key=c.int('ks2_k', 0, 11))
  ev.append(('key_signatures', 1, x))
  if any(name == 'tempos' for name, _, _ in ev):
    x = t('tp2_t')
    ns.tempos.add(time=x, qpm=c.real('tp2_q', 10, 480))
    ev.append(('tempos', 1, x))
  x = t('pb2_t')
  ns.pitch_bends.add(time=x, bend=c.int('pb2_b', -8192, 8191))
  ev.append(('pitch_bends', 1, x))
  x = t('cc2_t')
  ns.control_changes.add(time=x, control_number=64,
                         control_value=c.int('cc2_v', 0, 127))
  ev.append(('control_changes', 1, x))
  x = t('ta2_t')
  ns.text_annotations.add(time=x, text='beat', annotation_type=2)
  ev.append(('text_annotations', 1, x))
  if section:
    x = t('sa2_t')
    ns.section_annotations.add(time=x, section_id=c.int('sa2_id', 0, 5))
    ev.append(('section_annotations', 1, x))


def h_shift(c):
  pb, sl = c.pb, c.mod('sequences_lib')
  ns = pb.NoteSequence()
  info = K.populate_full(c, ns, c.params['N'],
                         groups=bool(c.params.get('two')))
  if c.params.get('two'):
    _second_events(c, ns, info)
  s = c.real('shift')
  before = c.snapshot(ns)
  res, err = c.raises(sl.shift_sequence_times, ns, s)
  c.check(c.msg_eq(ns, before), 'input unchanged')
  if err is not None:
    c.check(isinstance(err, ValueError), 'only ValueError')
    c.check(s <= 0, 'raised for a positive shift')
    c.cover('non-positive shift rejected')
    return
  c.check(s > 0, 'non-positive shift accepted')
  exp = copy.deepcopy(ns)
  _map_times(c, exp, lambda t: t + s, _EVENT_FIELDS + ('section_annotations',))
  exp.total_time = info['tt'] + s
  exp.ClearField('subsequence_info')
  c.check(c.msg_eq(res, exp), 'result = input with every time + shift')
  c.cover('shifted')


def h_stretch(c):
  pb, sl = c.pb, c.mod('sequences_lib')
  ns = pb.NoteSequence()
  info = K.populate_full(c, ns, c.params['N'], section=False,
                         groups=bool(c.params.get('two')))
  if c.params.get('two'):
    _second_events(c, ns, info, section=False)
  f = c.real('factor')
  c.assume(f > 0)
  before = c.snapshot(ns)
  if c.params.get('in_place'):
    # in_place=True: "the input note_sequence is edited directly"
    res = sl.stretch_note_sequence(ns, f, in_place=True)
    c.check(res is ns, 'in_place: the input object itself is returned')
  else:
    res = sl.stretch_note_sequence(ns, f)
    c.check(c.msg_eq(ns, before), 'input unchanged')
    c.check(res is not ns, 'a new object is returned')
  exp = copy.deepcopy(before)
  _map_times(c, exp, lambda t: t * f, _EVENT_FIELDS)
  exp.total_time = info['tt'] * f
  for t in exp.tempos:
    t.qpm = t.qpm / f
  c.check(c.msg_eq(res, exp),
          'result = input with every time * factor and qpm / factor')
  c.cover('factor exactly 1', c.eq(f, 1))
  c.cover('factor below 1', f < 1)
  if c.params.get('in_place'):
    # a second in-place call on the same object composes with the first
    f2 = c.choice('factor2', [2, 0.5, 1.0])
    res2 = sl.stretch_note_sequence(ns, f2, in_place=True)
    c.check(res2 is ns, 'in_place: the input object itself is returned')
    exp2 = copy.deepcopy(before)
    _map_times(c, exp2, lambda t: t * f * f2, _EVENT_FIELDS)
    exp2.total_time = info['tt'] * f * f2
    for t in exp2.tempos:
      t.qpm = t.qpm / f / f2
    c.check(c.msg_eq(ns, exp2),
            'in_place twice = every time * both factors, qpm / both')


def h_stretch_quantized(c):
  pb, sl = c.pb, c.mod('sequences_lib')
  ns = pb.NoteSequence()
  # either kind of quantization (relative: steps per quarter, absolute: steps
  # per second) makes the sequence "quantized"
  if c.choice('kind', ['relative', 'absolute']) == 'relative':
    ns.quantization_info.steps_per_quarter = c.int('spq', 1, 96)
  else:
    ns.quantization_info.steps_per_second = c.int('sps', 1, 100)
  res, err = c.raises(sl.stretch_note_sequence, ns, c.real('f', 1, 2))
  c.check(err is not None and isinstance(err, sl.QuantizationStatusError),
          'quantized input rejected')
  res, err = c.raises(sl.shift_sequence_times, ns, c.real('s', 1, 2))
  c.check(err is not None and isinstance(err, sl.QuantizationStatusError),
          'quantized input rejected (shift)')


def _mk_piece(c, pb, i, n_notes, lean=False):
  """One piece.  State events are stored as (time, value tuple), the value
  tuple holding EVERY field but the time (an event is redundant only when it
  "differs from the previous event of the same type only by time")."""
  P = 'q%d_' % i
  ns = pb.NoteSequence()
  if lean:
    notes = K.add_notes(c, ns, n_notes, prefix=P + 'n')
  else:
    notes = K.add_notes(c, ns, n_notes, prefix=P + 'n', instruments=(0, 3),
                        drums=True, programs=(0, 127))
  tt = K.well_formed_total(c, ns, notes, name=P + 'tt')
  if lean:
    # notes and one control change only (the state events multiply the case
    # splits of the redundant-event rule; they are covered with M <= 2), plus
    # - when asked - ONE kind of state event at the start of the piece
    cc = c.real(P + 'cc_t', 0)
    ns.control_changes.add(time=cc, control_number=64, control_value=c.int(
        P + 'cc_v', 0, 127))
    d = dict(ns=ns, notes=notes, tt=tt, cc=cc)
    if lean == 'tempo':
      d['tp'] = (0, (c.choice(P + 'tp_q', [120, 90]),))
      ns.tempos.add(time=0, qpm=d['tp'][1][0])
    elif lean == 'key':
      d['ks'] = (0, (c.choice(P + 'ks_k', [0, 7]), 0))
      ns.key_signatures.add(time=0, key=d['ks'][1][0])
    elif lean == 'meter':
      # same numerator with another denominator is NOT a repetition
      d['ts'] = (0, c.choice(P + 'ts_nd', [(4, 4), (4, 8), (3, 4)]))
      ns.time_signatures.add(time=0, numerator=d['ts'][1][0],
                             denominator=d['ts'][1][1])
    elif lean == 'mode':
      # same key in the other mode is NOT a repetition
      d['ks'] = (0, c.choice(P + 'ks_km', [(0, 0), (0, 1), (9, 1)]))
      ns.key_signatures.add(time=0, key=d['ks'][1][0], mode=d['ks'][1][1])
    return d
  tp = (c.real(P + 'tp_t', 0), (c.real(P + 'tp_q', 10, 480),))
  ns.tempos.add(time=tp[0], qpm=tp[1][0])
  ts = (c.real(P + 'ts_t', 0),
        (c.int(P + 'ts_n', 1, 12), 4 * c.int(P + 'ts_d4', 1, 2)))
  ns.time_signatures.add(time=ts[0], numerator=ts[1][0], denominator=ts[1][1])
  ks = (c.real(P + 'ks_t', 0),
        (c.int(P + 'ks_k', 0, 11), c.int(P + 'ks_m', 0, 1)))
  ns.key_signatures.add(time=ks[0], key=ks[1][0], mode=ks[1][1])
  cc = c.real(P + 'cc_t', 0)
  ns.control_changes.add(time=cc, control_number=c.int(P + 'cc_n', 0, 127),
                         control_value=c.int(P + 'cc_v', 0, 127),
                         instrument=c.int(P + 'cc_i', 0, 3))
  d = dict(ns=ns, notes=notes, tt=tt, tp=tp, ts=ts, ks=ks, cc=cc)
  # stateless events of the other kinds
  d['pb'] = c.real(P + 'pb_t', 0)
  ns.pitch_bends.add(time=d['pb'], bend=c.int(P + 'pb_b', -8192, 8191),
                     instrument=c.int(P + 'pb_i', 0, 3))
  d['ta'] = c.real(P + 'ta_t', 0)
  ns.text_annotations.add(time=d['ta'], text='t%d' % i,
                          annotation_type=c.int(P + 'ta_ty', 0, 2))
  d['sa'] = c.real(P + 'sa_t', 0)
  ns.section_annotations.add(time=d['sa'], section_id=c.int(P + 'sa_id', 0, 5))
  # a global value: "only the final value will be used"
  d['tpq'] = c.int(P + 'tpq', 1, 960)
  ns.ticks_per_quarter = d['tpq']
  return d


def _dedup(c, events):
  """events: [(time, value tuple)] in storage order -> kept list after the
  redundant-event rule (sorted by time, drop those repeating the previous)."""
  order = sorted(range(len(events)), key=lambda i: events[i][0])
  srt = [events[i] for i in order]
  kept = []
  for k, (t, v) in enumerate(srt):
    if k > 0 and bool(K.key_eq(c, v, srt[k - 1][1])):
      continue
    kept.append((t, v))
  return kept


def h_concat(c):
  M, n_notes = c.params['M'], c.params['N']
  use_dur = c.params['durations']
  pb, sl = c.pb, c.mod('sequences_lib')
  lean = c.params.get('lean', False)
  pieces = [_mk_piece(c, pb, i, n_notes, lean) for i in range(M)]
  durs = None
  if use_dur:
    durs = [c.real('dur%d' % i, 0) for i in range(M)]
  befores = [c.snapshot(p['ns']) for p in pieces]
  res, err = c.raises(sl.concatenate_sequences, [p['ns'] for p in pieces],
                      list(durs) if durs else None)
  for p, b in zip(pieces, befores):
    c.check(c.msg_eq(p['ns'], b), 'inputs unchanged')
  short = c.Or([d < p['tt'] for d, p in zip(durs, pieces)]) if durs else False
  if err is not None:
    c.check(isinstance(err, ValueError), 'only ValueError')
    c.check(short, 'raised although every duration covers its piece')
    c.cover('short duration rejected')
    return
  c.check(c.Not(short), 'too short duration accepted')
  c.check(all(res is not p['ns'] for p in pieces), 'a new object is returned')
  # offsets
  offs = []
  cur = 0
  total = 0
  for i, p in enumerate(pieces):
    offs.append(cur)
    # total_time after merging piece i (MergeFrom keeps the old value when the
    # new one is zero)
    new_tt = p['tt'] + cur
    total = c.If(c.eq(new_tt, 0), total, new_tt)
    cur = cur + durs[i] if durs else total
  got_notes = list(res.notes)
  c.check(len(got_notes) == M * n_notes, 'every note kept, none invented')
  k = 0
  for i, p in enumerate(pieces):
    for n in p['notes']:
      m = got_notes[k]
      k += 1
      c.check(c.And(c.eq(m.start_time, n['start_time'] + offs[i]),
                    c.eq(m.end_time, n['end_time'] + offs[i]),
                    c.eq(m.pitch, n['pitch']), c.eq(m.velocity, n['velocity'])),
              'note of piece i placed after the summed durations before it')
      if 'instrument' in n:
        c.check(c.And(c.eq(m.instrument, n['instrument']),
                      c.eq(m.program, n['program']),
                      c.eq(m.is_drum, n['is_drum'])),
                'instrument, program and drum flag of every note kept')
  c.check(len(res.control_changes) == M,
          'every control change kept, none invented')
  for i, p in enumerate(pieces):
    c.check(c.eq(res.control_changes[i].time, p['cc'] + offs[i]),
            'control change moved with its piece')
  # stateless events: everything but the time unchanged, time moved by the
  # offset of the piece
  for name, key in (('control_changes', 'cc'), ('pitch_bends', 'pb'),
                    ('text_annotations', 'ta'), ('section_annotations', 'sa')):
    if key not in pieces[0]:
      c.check(len(getattr(res, name)) == 0, 'no %s invented' % name)
      continue
    got_ev = list(getattr(res, name))
    c.check(len(got_ev) == M, '%s: every event kept, none invented' % name)
    for i, p in enumerate(pieces):
      e = copy.deepcopy(getattr(p['ns'], name)[0])
      e.time = p[key] + offs[i]
      c.check(c.msg_eq(got_ev[i], e),
              '%s: moved with its piece, nothing else changed' % name)
  if 'tpq' in pieces[0]:
    c.check(c.eq(res.ticks_per_quarter, pieces[-1]['tpq']),
            'global value (ticks_per_quarter): the final piece wins')
  c.check(c.eq(res.total_time, total), 'total_time')
  for name, key, val in (('tempos', 'tp', lambda e: (e.qpm,)),
                         ('time_signatures', 'ts',
                          lambda e: (e.numerator, e.denominator)),
                         ('key_signatures', 'ks', lambda e: (e.key, e.mode))):
    if lean and key not in pieces[0]:
      c.check(len(getattr(res, name)) == 0, 'no %s invented' % name)
      continue
    evs = [(p[key][0] + offs[i], p[key][1]) for i, p in enumerate(pieces)]
    kept = _dedup(c, evs)
    got = [(e.time, val(e)) for e in getattr(res, name)]
    c.check(len(got) == len(kept), '%s: only redundant events dropped' % name)
    c.check(c.And([c.And(c.eq(a[0], b[0]), K.key_eq(c, a[1], b[1]))
                   for a, b in zip(got, kept)] or [True]),
            '%s: kept events at their shifted times' % name)
  c.check(not res.HasField('subsequence_info'), 'subsequence_info cleared')
  if M >= 2 and not lean:
    c.cover('second tempo repeats the first (dropped)',
            c.eq(pieces[0]['tp'][1][0], pieces[1]['tp'][1][0]))
    c.cover('same numerator, other denominator (kept)',
            c.And(c.eq(pieces[0]['ts'][1][0], pieces[1]['ts'][1][0]),
                  c.Not(c.eq(pieces[0]['ts'][1][1], pieces[1]['ts'][1][1]))))
    c.cover('same key, other mode (kept)',
            c.And(c.eq(pieces[0]['ks'][1][0], pieces[1]['ks'][1][0]),
                  c.Not(c.eq(pieces[0]['ks'][1][1], pieces[1]['ks'][1][1]))))
    c.cover('first piece has zero duration', c.eq(offs[1], 0))


def h_concat_meta(c):
  """sequence_metadata through concatenation: "Fields in sequence_metadata are
  considered redundant if the same string is repeated" (composers and genre
  keep their first occurrences in order); the title is a global value."""
  pb, sl = c.pb, c.mod('sequences_lib')
  M = c.params['M']
  opts = [None, (['a'], ['g']), (['b', 'a'], ['g', 'a']),
          (['a', 'a', 'c'], ['h'])]
  pieces, metas = [], []
  for i in range(M):
    ns = pb.NoteSequence()
    notes = K.add_notes(c, ns, 1, prefix='q%d_n' % i)
    K.well_formed_total(c, ns, notes, name='q%d_tt' % i)
    m = c.choice('meta%d' % i, opts if i else opts[1:])
    if m is not None:
      ns.sequence_metadata.title = 'title%d' % i
      for x in m[0]:
        ns.sequence_metadata.composers.append(x)
      for x in m[1]:
        ns.sequence_metadata.genre.append(x)
    pieces.append(ns)
    metas.append(m)
  befores = [c.snapshot(p) for p in pieces]
  res = sl.concatenate_sequences(pieces)
  for p, b in zip(pieces, befores):
    c.check(c.msg_eq(p, b), 'inputs unchanged')

  def uniq(lists):
    out = []
    for l in lists:
      for x in l:
        if x not in out:
          out.append(x)
    return out

  c.check(list(res.sequence_metadata.composers) ==
          uniq([m[0] for m in metas if m is not None]),
          'composers: first occurrences in order, repeats dropped')
  c.check(list(res.sequence_metadata.genre) ==
          uniq([m[1] for m in metas if m is not None]),
          'genre: first occurrences in order, repeats dropped')
  last = max(i for i, m in enumerate(metas) if m is not None)
  c.check(res.sequence_metadata.title == 'title%d' % last,
          'global value (title): the final piece that has one wins')
  c.check(len(res.notes) == M, 'every note kept, none invented')
  c.cover('a composer repeated across pieces',
          len(uniq([m[0] for m in metas if m is not None])) <
          sum(len(set(m[0])) for m in metas if m is not None))


def h_concat_mismatch(c):
  pb, sl = c.pb, c.mod('sequences_lib')
  a = pb.NoteSequence()
  b = pb.NoteSequence()
  res, err = c.raises(sl.concatenate_sequences, [a, b], [c.real('d', 1, 2)])
  c.check(err is not None and isinstance(err, ValueError),
          'length mismatch rejected with ValueError')


def h_repeat(c):
  pb, sl = c.pb, c.mod('sequences_lib')
  n_notes = c.params['N']
  ns = pb.NoteSequence()
  notes = K.add_notes(c, ns, n_notes)
  tt = K.well_formed_total(c, ns, notes)
  c.assume(tt > 0)
  q = c.real('q', 10, 480)
  ns.tempos.add(time=0, qpm=q)
  events = c.params.get('events', False)
  if events:
    # a key signature and a sustain-pedal change somewhere in the piece
    ks_t, ks_k = c.real('ks_t', 0), c.int('ks_k', 0, 11)
    ns.key_signatures.add(time=ks_t, key=ks_k)
    cc_t, cc_v = c.real('cc_t', 0), c.int('cc_v', 0, 127)
    ns.control_changes.add(time=cc_t, control_number=64, control_value=cc_v)
  use_sd = c.params['seq_dur']
  D = tt
  sd = None
  if use_sd:
    sd = c.real('sd')
    c.assume(sd >= tt)
    D = sd
  dur = c.real('dur')
  c.assume(dur > 0)
  c.assume(dur <= c.params['max_rep'] * D)
  before = c.snapshot(ns)
  res = sl.repeat_sequence_to_duration(ns, dur, sd)
  c.check(c.msg_eq(ns, before), 'input unchanged')
  exp = []
  for r in range(c.params['max_rep']):
    for n in notes:
      s = n['start_time'] + r * D
      exp.append((s < dur, (s, c.Min(n['end_time'] + r * D, dur), n['pitch'],
                            n['velocity'])))
  got = [(m.start_time, m.end_time, m.pitch, m.velocity) for m in res.notes]
  c.check(K.multiset_eq(c, got, exp),
          'notes = copies at multiples of the duration, cut at the target')
  c.check(len(res.tempos) == 1, 'repeated tempo dropped as redundant')
  c.check(c.And(c.eq(res.tempos[0].qpm, q), c.eq(res.tempos[0].time, 0)),
          'the tempo of the piece, at time 0')
  c.check(not res.HasField('subsequence_info'), 'subsequence_info cleared')
  for m in res.notes:
    c.check(m.end_time <= dur, 'nothing past the requested duration')
    c.check(m.end_time <= res.total_time, 'total_time covers every note')
  c.check(res.total_time <= dur, 'total_time not past the requested duration')
  if events:
    # the copies of the key signature repeat its value: only the first stays,
    # unless the cut removes it (an event exactly on the cut: not asserted)
    if bool(ks_t < dur):
      c.check(len(res.key_signatures) == 1 and bool(c.And(
          c.eq(res.key_signatures[0].time, ks_t),
          c.eq(res.key_signatures[0].key, ks_k))),
              'key signature: first copy kept at its time, repeats dropped')
    elif bool(ks_t > dur):
      c.check(len(res.key_signatures) == 0, 'key signature past the cut removed')
    # pedal changes are not redundant: one per copy, up to the cut
    cc_times = [cc_t + r * D for r in range(c.params['max_rep'])]
    if not bool(c.Or([c.eq(t, dur) for t in cc_times])):
      got_cc = [(e.time, e.control_number, e.control_value)
                for e in res.control_changes]
      c.check(K.multiset_eq(c, got_cc, [(t < dur, (t, 64, cc_v))
                                        for t in cc_times]),
              'pedal change repeated with every copy, cut at the target')
      c.cover('pedal change of the second copy kept', cc_times[1] < dur)
  c.cover('target is an exact multiple of the duration', c.eq(dur, 2 * D))


def _time_func(c, m1, m2, bp, off):
  def f(t):
    if t < bp:
      return off + m1 * t
    return off + m1 * bp + m2 * (t - bp)
  return f


def _num(c, x):
  return Fraction(x[0], x[1]) if c.mode == 'sym' else x[0] / x[1]


def h_adjust(c):
  pb, sl = c.pb, c.mod('sequences_lib')
  ns = pb.NoteSequence()
  info = K.populate_full(c, ns, c.params['N'],
                         groups=bool(c.params.get('two')))
  if c.params.get('two'):
    # a second event of every kind, all at one further symbolic instant
    _second_events(c, ns, info, shared=True)
  m1, m2 = _num(c, c.params['m1']), _num(c, c.params['m2'])
  bp = c.real('bp', 0)
  off = c.real('off', -4, 4)
  f = _time_func(c, m1, m2, bp, off)
  # declarative copy of the map (no fork)
  g = lambda t: c.If(t < bp, off + m1 * t, off + m1 * bp + m2 * (t - bp))
  before = c.snapshot(ns)
  # minimum_duration: collapsed notes are kept with this duration instead of
  # being skipped
  mind = c.real('min_dur', 0, 1) if c.params.get('min_dur') is True else None
  if mind is not None:
    c.assume(mind > 0)
    res, err = c.raises(sl.adjust_notesequence_times, ns, f, mind)
  elif c.params.get('min_dur') == 'zero':
    # the degenerate value 0 means "no minimum": collapsed notes are skipped
    res, err = c.raises(sl.adjust_notesequence_times, ns, f,
                        c.choice('zero', [0, 0.0]))
  else:
    res, err = c.raises(sl.adjust_notesequence_times, ns, f)
  c.check(c.msg_eq(ns, before), 'input unchanged')
  notes = info['notes']
  if mind is not None:
    bad_note = [c.Or(c.And(c.Not(c.eq(g(n['start_time']), g(n['end_time']))),
                           g(n['end_time']) < g(n['start_time'])),
                     g(n['start_time']) < 0) for n in notes]
  else:
    bad_note = [c.And(c.Not(c.eq(g(n['start_time']), g(n['end_time']))),
                      c.Or(g(n['end_time']) < g(n['start_time']),
                           g(n['start_time']) < 0)) for n in notes]
  ev_times = [t for (name, _, t) in info['events']
              if name not in ('tempos', 'section_annotations')]
  bad_ev = [g(t) < 0 for t in ev_times]
  bad = c.Or(bad_note + bad_ev)
  if err is not None:
    c.check(isinstance(err, sl.InvalidTimeAdjustmentError),
            'only InvalidTimeAdjustmentError')
    c.check(bad, 'raised although the map is monotone and non-negative here')
    c.cover('rejected')
    return
  c.check(c.Not(bad), 'reversing / negative map accepted')
  adj, skipped = res
  collapsed = [c.eq(g(n['start_time']), g(n['end_time'])) for n in notes]
  if mind is not None:
    c.check(c.eq(skipped, 0), 'with minimum_duration nothing is skipped')
    exp = [(True, (g(n['start_time']),
                   c.If(col, g(n['end_time']) + mind, g(n['end_time'])),
                   n['pitch'], n['velocity'], n['instrument'], n['program'],
                   n['is_drum'])) for n, col in zip(notes, collapsed)]
  else:
    c.check(c.eq(skipped, c.Count(collapsed)), 'skipped = zero-length notes')
    exp = [(c.Not(col), (g(n['start_time']), g(n['end_time']), n['pitch'],
                         n['velocity'], n['instrument'], n['program'],
                         n['is_drum'])) for n, col in zip(notes, collapsed)]
  got = [(m.start_time, m.end_time, m.pitch, m.velocity, m.instrument,
          m.program, m.is_drum) for m in adj.notes]
  c.check(K.multiset_eq(c, got, exp), 'every surviving note mapped by the map')
  c.check(c.eq(adj.total_time, c.Max([0] + [c.If(cd, k[1], 0) for cd, k in exp])),
          'total_time = last surviving note end')
  expm = copy.deepcopy(ns)
  for name in ('control_changes', 'pitch_bends', 'time_signatures',
               'key_signatures', 'text_annotations'):
    for e in getattr(expm, name):
      e.time = g(e.time)
    c.check(len(getattr(adj, name)) == len(getattr(expm, name)),
            '%s: no event dropped or invented' % name)
    c.check(c.And([c.msg_eq(a, b) for a, b in zip(getattr(adj, name),
                                                 getattr(expm, name))]),
            '%s mapped, nothing else changed' % name)
  c.check(len(adj.tempos) == 0, 'tempos deleted')
  # everything that carries no time (id, ticks_per_quarter, part / instrument
  # infos, source info, metadata, section groups, ...) is as in the input
  # (section annotations are left out of the comparison: the docstring says
  # they are ignored, the statement says every event is mapped)
  rest_a, rest_b = copy.deepcopy(adj), copy.deepcopy(ns)
  for m in (rest_a, rest_b):
    for name in ('notes', 'tempos', 'total_time', 'control_changes',
                 'pitch_bends', 'time_signatures', 'key_signatures',
                 'text_annotations', 'section_annotations'):
      m.ClearField(name)
  c.check(c.msg_eq(rest_a, rest_b), 'every field without a time unchanged')
  c.cover('a note collapses to zero length', collapsed[0])
  c.cover('accepted')


def h_rectify(c):
  pb, sl = c.pb, c.mod('sequences_lib')
  TA = pb.NoteSequence.TextAnnotation
  B = c.params['B']
  bpm = c.params['bpm']
  extras = c.params.get('extras', False)
  ns = pb.NoteSequence()
  notes = K.add_notes(c, ns, 1)
  tt = K.well_formed_total(c, ns, notes)
  beats = []
  ev_t = None
  for i in range(B):
    t = c.real('b%d' % i, 0)
    ns.text_annotations.add(time=t, annotation_type=TA.BEAT)
    beats.append(t)
    if extras and i == 0:
      # one event of every other kind at a common symbolic instant; the
      # annotation that is NOT a beat is stored between the beats
      ev_t = c.real('ev_t', 0)
      ns.text_annotations.add(time=ev_t, text='Cmaj7',
                              annotation_type=TA.CHORD_SYMBOL)
      ns.time_signatures.add(time=ev_t, numerator=3, denominator=4)
      ns.key_signatures.add(time=ev_t, key=c.int('ks_k', 0, 11), mode=1)
      ns.control_changes.add(time=ev_t, control_number=c.int('cc_n', 0, 127),
                             control_value=c.int('cc_v', 0, 127), instrument=1)
      ns.pitch_bends.add(time=ev_t, bend=c.int('pb_b', -8192, 8191),
                         instrument=2)
  ns.tempos.add(time=0, qpm=100)
  before = c.snapshot(ns)
  res, err = c.raises(sl.rectify_beats, ns, bpm)
  c.check(c.msg_eq(ns, before), 'input unchanged')
  usable = [b <= tt for b in beats]
  if err is not None:
    c.check(isinstance(err, sl.RectifyBeatsError), 'only RectifyBeatsError')
    c.check(c.Not(c.Or(usable or [False])), 'raised although there are beats')
    c.cover('no beats rejected')
    return
  c.check(c.Or(usable or [False]), 'no usable beat but accepted')
  rect, align = res
  spb = (Fraction(60, bpm) if c.mode == 'sym' else 60.0 / bpm)
  # rank of a time among the distinct grid points {0} U beats<=tt U {tt}
  pts = [0] + [b for b, u in zip(beats, usable) if bool(u)] + [tt]
  uniq = []
  for p in sorted(pts):
    if not uniq or bool(p > uniq[-1]):
      uniq.append(p)

  def g(t):
    # piecewise-linear map through (uniq[k], k*spb); right of the grid -> tt
    if t < uniq[0]:
      return 0.0
    if t > uniq[-1]:
      return tt
    if len(uniq) == 1:
      return 0
    for k in range(len(uniq) - 1):
      if t < uniq[k + 1]:
        return k * spb + spb * (t - uniq[k]) / (uniq[k + 1] - uniq[k])
    return (len(uniq) - 1) * spb

  out_beats = [a for a in rect.text_annotations if a.annotation_type == TA.BEAT]
  c.check(len(out_beats) == B, 'beat annotations kept')
  rows = [list(r) for r in align.tolist()]
  c.check(all(len(r) == 2 for r in rows), 'alignment rows are pairs')
  for a, b, u in zip(out_beats, beats, usable):
    if bool(u):
      k = [i for i, p in enumerate(uniq) if bool(c.eq(p, b))][0]
      c.check(c.approx(a.time, k * spb, 1e-9), 'beat lands on k*60/bpm')
      # "each row contains the original and rectified times for a beat"
      c.check(c.Or([c.And(c.eq(r[0], b), c.approx(r[1], k * spb, 1e-9))
                    for r in rows] or [False]),
              'alignment has a row (beat, k*60/bpm) for every usable beat')
  for r in rows:
    c.check(c.approx(r[1], g(r[0]), 1e-9),
            'alignment rows pair a time with its rectified time')
  if len(rect.notes) == 1:
    n = notes[0]
    # (up to 1e-9: the code multiplies k * 60. / bpm in doubles, which is not
    # the exact rational for tempi such as 97)
    c.check(c.And(c.approx(rect.notes[0].start_time, g(n['start_time']), 1e-9),
                  c.approx(rect.notes[0].end_time, g(n['end_time']), 1e-9)),
            'note mapped by the beat interpolation')
    c.check(c.And(c.eq(rect.notes[0].pitch, n['pitch']),
                  c.eq(rect.notes[0].velocity, n['velocity'])),
            'pitch and velocity of the note unchanged')
    c.check(c.approx(rect.total_time, g(n['end_time']), 1e-9),
            'total_time = rectified end of the last surviving note')
  else:
    c.check(len(rect.notes) == 0, 'no note invented')
    c.check(bool(c.eq(g(notes[0]['start_time']), g(notes[0]['end_time']))),
            'only a collapsed note is dropped')
    c.check(c.eq(rect.total_time, 0),
            'total_time = rectified end of the last surviving note')
  c.check(len(rect.tempos) == 1 and bool(c.eq(rect.tempos[0].qpm, bpm)),
          'single tempo = requested bpm')
  c.check(c.eq(rect.tempos[0].time, 0), 'the single tempo is at time 0')
  c.check(len(rect.time_signatures) == 0, 'time signatures deleted')
  if extras:
    others = [a for a in rect.text_annotations
              if a.annotation_type != TA.BEAT]
    c.check(len(others) == 1 and len(rect.key_signatures) == 1 and
            len(rect.control_changes) == 1 and len(rect.pitch_bends) == 1,
            'one event of every other kind kept, none invented')
    got = [others[0], rect.key_signatures[0], rect.control_changes[0],
           rect.pitch_bends[0]]
    src = [ns.text_annotations[1], ns.key_signatures[0], ns.control_changes[0],
           ns.pitch_bends[0]]
    for a, b in zip(got, src):
      e = copy.deepcopy(b)
      e.time = a.time
      c.check(c.msg_eq(a, e), 'events keep everything but their time')
    # (times past total_time are outside the documented interpolation range:
    # nothing is asserted about them)
    if bool(ev_t <= tt):
      m = g(ev_t)
      c.check(c.And([c.approx(a.time, m, 1e-9) for a in got]),
              'every event mapped by the beat interpolation')
      c.cover('an event strictly between two grid points',
              c.And(ev_t > uniq[0], ev_t < uniq[-1]))
  c.cover('accepted')


def h_rectify_quantized(c):
  pb, sl = c.pb, c.mod('sequences_lib')
  TA = pb.NoteSequence.TextAnnotation
  ns = pb.NoteSequence()
  if c.choice('kind', ['absolute', 'relative']) == 'absolute':
    ns.quantization_info.steps_per_second = c.int('sps', 1, 100)
  else:
    ns.quantization_info.steps_per_quarter = c.int('spq', 1, 96)
  ns.total_time = 1
  ns.text_annotations.add(time=0.5, annotation_type=TA.BEAT)
  res, err = c.raises(sl.rectify_beats, ns, 120)
  c.check(err is not None and isinstance(err, sl.QuantizationStatusError),
          'quantized input rejected')


HARNESSES = {
    'h_shift': h_shift,
    'h_stretch': h_stretch,
    'h_stretch_quantized': h_stretch_quantized,
    'h_concat': h_concat,
    'h_concat_meta': h_concat_meta,
    'h_concat_mismatch': h_concat_mismatch,
    'h_repeat': h_repeat,
    'h_adjust': h_adjust,
    'h_rectify': h_rectify,
    'h_rectify_quantized': h_rectify_quantized,
}


def jobs(tier):
  J = []

  def add(h, budget=150, required=True, **params):
    J.append({'harness': h, 'params': params, 'budget_s': budget,
              'required': required})

  deep = tier == 'thorough'
  add('h_shift', N=1)
  add('h_shift', N=2)
  add('h_stretch', N=1)
  add('h_stretch', N=2)
  add('h_stretch', N=1, in_place=True)
  add('h_shift', N=1, two=True)
  add('h_stretch', N=1, two=True)
  add('h_stretch_quantized')
  add('h_concat', M=1, N=1, durations=False)
  add('h_concat', M=2, N=1, durations=False)
  add('h_concat', M=2, N=1, durations=True)
  # three and four pieces (offsets accumulate), notes + control changes only
  add('h_concat', M=3, N=1, durations=False, lean=True, budget=600)
  add('h_concat', M=3, N=1, durations=True, lean=True, budget=600)
  add('h_concat', M=4, N=1, durations=False, lean=True, budget=900)
  # a state value that returns (A-B-A) or is restated (A-B-B) across pieces
  add('h_concat', M=3, N=1, durations=False, lean='tempo', budget=900)
  add('h_concat', M=3, N=1, durations=True, lean='key', budget=900)
  add('h_concat', M=3, N=1, durations=False, lean='meter', budget=900)
  add('h_concat', M=3, N=1, durations=True, lean='mode', budget=900)
  add('h_concat', M=1, N=1, durations=True)
  add('h_concat', M=5, N=1, durations=True, lean=True, budget=900)
  add('h_concat_meta', M=2)
  add('h_concat_mismatch')
  add('h_repeat', N=1, seq_dur=False, max_rep=2)
  add('h_repeat', N=1, seq_dur=True, max_rep=2)
  add('h_repeat', N=1, seq_dur=False, max_rep=2, events=True)
  add('h_repeat', N=1, seq_dur=True, max_rep=3, events=True, budget=300)
  slopes = [[0, 1], [1, 2], [1, 1], [2, 1], [-1, 1]]
  for m1, m2 in [(1, 2), (2, 0), (3, 1), (2, 4), (0, 2)]:
    add('h_adjust', N=1, m1=slopes[m1], m2=slopes[m2])
  add('h_adjust', N=2, m1=slopes[1], m2=slopes[3])
  add('h_adjust', N=2, m1=slopes[2], m2=slopes[0])
  add('h_adjust', N=1, m1=slopes[2], m2=slopes[0], min_dur=True)
  add('h_adjust', N=1, m1=slopes[2], m2=slopes[0], min_dur='zero')
  # one note collapses and the other does not / both collapse, with a minimum
  add('h_adjust', N=2, m1=slopes[2], m2=slopes[0], min_dur=True, budget=300)
  add('h_adjust', N=2, m1=slopes[2], m2=slopes[0], min_dur='zero', budget=300)
  # reversing segment first / last with two notes
  add('h_adjust', N=2, m1=slopes[4], m2=slopes[2], budget=300)
  add('h_adjust', N=2, m1=slopes[2], m2=slopes[4], budget=300)
  # two events of every kind + section groups
  add('h_adjust', N=1, m1=slopes[1], m2=slopes[3], two=True, budget=300)
  add('h_rectify', B=1, bpm=60)
  add('h_rectify', B=2, bpm=120)
  add('h_rectify', B=1, bpm=120, extras=True)
  add('h_rectify', B=2, bpm=60, extras=True)
  add('h_rectify', B=1, bpm=97)
  add('h_rectify_quantized')
  if deep:
    add('h_shift', N=3, budget=900)
    add('h_stretch', N=3, budget=900)
    add('h_concat', M=3, N=1, durations=False, budget=1800)
    add('h_concat', M=3, N=1, durations=True, budget=1800)
    add('h_concat', M=2, N=2, durations=True, budget=1800)
    add('h_repeat', N=2, seq_dur=False, max_rep=3, budget=1800)
    add('h_repeat', N=2, seq_dur=True, max_rep=3, budget=1800)
    for m1 in range(5):
      for m2 in range(5):
        add('h_adjust', N=1, m1=slopes[m1], m2=slopes[m2], budget=900)
    for m1, m2 in [(1, 2), (2, 0), (3, 4), (0, 3)]:
      add('h_adjust', N=2, m1=slopes[m1], m2=slopes[m2], budget=1800)
    add('h_rectify', B=3, bpm=97, budget=1800, required=False)
    add('h_rectify', B=2, bpm=60, budget=900)
    add('h_stretch', N=2, in_place=True, two=True, budget=900)
    add('h_shift', N=2, two=True, budget=900)
    add('h_concat_meta', M=3, budget=900)
    add('h_concat', M=2, N=2, durations=False, budget=1800)
    add('h_repeat', N=2, seq_dur=True, max_rep=3, events=True, budget=1800)
    add('h_adjust', N=2, m1=slopes[1], m2=slopes[3], two=True, budget=1800)
    add('h_adjust', N=2, m1=slopes[1], m2=slopes[0], min_dur=True, budget=1800)
    add('h_rectify', B=2, bpm=97, extras=True, budget=1800, required=False)
  return J
