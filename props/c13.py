"""C13 -- shift, stretch, concatenate, repeat, adjust and rectify move every
event consistently."""
import copy
from fractions import Fraction

from props import common as K

META = {
    'level': 'model_checking',
    'level_text':
        'The real shift/stretch/concatenate/repeat/adjust/rectify functions '
        'run on fully populated symbolic sequences (every repeated field '
        'present, all times and the shift/stretch/duration arguments free '
        'reals); on every path the solver shows the result equals the input '
        'copy with exactly the documented time map applied to every time '
        'field, plus the documented drops (redundant tempo/meter/key events, '
        'zero-length notes) and rejections, and that the input is unchanged.',
    'level_note':
        'Trusted: z3, reals for doubles, symproto and np-lite (interp/arange) '
        'validated per sampled path on the real stack. Time maps for '
        'adjust_notesequence_times are piecewise-linear closures with concrete '
        'slopes from a grid and symbolic breakpoint/offset.',
    'functions': [('sequences_lib', 'shift_sequence_times'),
                  ('sequences_lib', 'stretch_note_sequence'),
                  ('sequences_lib', 'concatenate_sequences'),
                  ('sequences_lib', 'remove_redundant_data'),
                  ('sequences_lib', 'repeat_sequence_to_duration'),
                  ('sequences_lib', 'adjust_notesequence_times'),
                  ('sequences_lib', 'rectify_beats')],
    'assumptions': [
        'double fields are exact reals',
        'well-formed inputs (0 <= start <= end <= total_time, event times >= 0)',
        'stretch: section annotations are left out of the input (the code does '
        'not scale them and the statement is ambiguous about them; neither '
        'behaviour is asserted)',
    ],
    'bounds': {
        'quick': 'shift/stretch: 1-2 notes + one event of every kind; '
                 'concatenate: 2 sequences x 1 note + tempo/meter/key each; '
                 'repeat: <=3 copies; adjust: 1-2 notes, slopes from '
                 '{0,1/2,1,2,-1}; rectify: <=2 beats, bpm in {60,120}',
        'thorough': 'concatenate 3 sequences; adjust 2 notes x all slope '
                    'pairs; rectify 3 beats',
    },
    'outside': ['more events than the bounds', 'float rounding',
                'symbolic slopes of the time map'],
}

_EVENT_FIELDS = ('time_signatures', 'key_signatures', 'tempos', 'pitch_bends',
                 'control_changes', 'text_annotations')


def _map_times(c, exp, f, fields):
  for n in exp.notes:
    n.start_time = f(n.start_time)
    n.end_time = f(n.end_time)
  for name in fields:
    for e in getattr(exp, name):
      e.time = f(e.time)


def h_shift(c):
  pb, sl = c.pb, c.mod('sequences_lib')
  ns = pb.NoteSequence()
  info = K.populate_full(c, ns, c.params['N'])
  s = c.real('shift')
  before = c.snapshot(ns)
  res, err = c.raises(sl.shift_sequence_times, ns, s)
  c.check(c.msg_eq(ns, before), 'input unchanged')
  if err is not None:
    c.check(isinstance(err, ValueError), 'only ValueError')
    c.check(s <= 0, 'raised for a positive shift')
    c.cover('non-positive shift rejected')
    return
  c.check(s > 0, 'non-positive shift accepted')
  exp = copy.deepcopy(ns)
  _map_times(c, exp, lambda t: t + s, _EVENT_FIELDS + ('section_annotations',))
  exp.total_time = info['tt'] + s
  exp.ClearField('subsequence_info')
  c.check(c.msg_eq(res, exp), 'result = input with every time + shift')
  c.cover('shifted')


def h_stretch(c):
  pb, sl = c.pb, c.mod('sequences_lib')
  ns = pb.NoteSequence()
  info = K.populate_full(c, ns, c.params['N'], section=False)
  f = c.real('factor')
  c.assume(f > 0)
  before = c.snapshot(ns)
  res = sl.stretch_note_sequence(ns, f)
  c.check(c.msg_eq(ns, before), 'input unchanged')
  c.check(res is not ns, 'a new object is returned')
  exp = copy.deepcopy(ns)
  _map_times(c, exp, lambda t: t * f, _EVENT_FIELDS)
  exp.total_time = info['tt'] * f
  for t in exp.tempos:
    t.qpm = t.qpm / f
  c.check(c.msg_eq(res, exp),
          'result = input with every time * factor and qpm / factor')
  c.cover('factor exactly 1', c.eq(f, 1))
  c.cover('factor below 1', f < 1)


def h_stretch_quantized(c):
  pb, sl = c.pb, c.mod('sequences_lib')
  ns = pb.NoteSequence()
  ns.quantization_info.steps_per_quarter = c.int('spq', 1, 96)
  res, err = c.raises(sl.stretch_note_sequence, ns, c.real('f', 1, 2))
  c.check(err is not None and isinstance(err, sl.QuantizationStatusError),
          'quantized input rejected')
  res, err = c.raises(sl.shift_sequence_times, ns, c.real('s', 1, 2))
  c.check(err is not None and isinstance(err, sl.QuantizationStatusError),
          'quantized input rejected (shift)')


def _mk_piece(c, pb, i, n_notes, lean=False):
  P = 'q%d_' % i
  ns = pb.NoteSequence()
  notes = K.add_notes(c, ns, n_notes, prefix=P + 'n')
  tt = K.well_formed_total(c, ns, notes, name=P + 'tt')
  if lean:
    # notes and one control change only (the state events multiply the case
    # splits of the redundant-event rule; they are covered with M <= 2), plus
    # - when asked - ONE kind of state event at the start of the piece
    cc = c.real(P + 'cc_t', 0)
    ns.control_changes.add(time=cc, control_number=64, control_value=c.int(
        P + 'cc_v', 0, 127))
    d = dict(ns=ns, notes=notes, tt=tt, cc=cc)
    if lean == 'tempo':
      d['tp'] = (0, c.choice(P + 'tp_q', [120, 90]))
      ns.tempos.add(time=0, qpm=d['tp'][1])
    elif lean == 'key':
      d['ks'] = (0, c.choice(P + 'ks_k', [0, 7]))
      ns.key_signatures.add(time=0, key=d['ks'][1])
    return d
  tp = (c.real(P + 'tp_t', 0), c.real(P + 'tp_q', 10, 480))
  ns.tempos.add(time=tp[0], qpm=tp[1])
  ts = (c.real(P + 'ts_t', 0), c.int(P + 'ts_n', 1, 12))
  ns.time_signatures.add(time=ts[0], numerator=ts[1], denominator=4)
  ks = (c.real(P + 'ks_t', 0), c.int(P + 'ks_k', 0, 11))
  ns.key_signatures.add(time=ks[0], key=ks[1])
  cc = c.real(P + 'cc_t', 0)
  ns.control_changes.add(time=cc, control_number=64, control_value=c.int(
      P + 'cc_v', 0, 127))
  ns.ticks_per_quarter = 220
  return dict(ns=ns, notes=notes, tt=tt, tp=tp, ts=ts, ks=ks, cc=cc)


def _dedup(c, events):
  """events: [(time, value tuple)] in storage order -> kept list after the
  redundant-event rule (sorted by time, drop those repeating the previous)."""
  order = sorted(range(len(events)), key=lambda i: events[i][0])
  srt = [events[i] for i in order]
  kept = []
  for k, (t, v) in enumerate(srt):
    if k > 0 and bool(K.key_eq(c, v, srt[k - 1][1])):
      continue
    kept.append((t, v))
  return kept


def h_concat(c):
  M, n_notes = c.params['M'], c.params['N']
  use_dur = c.params['durations']
  pb, sl = c.pb, c.mod('sequences_lib')
  lean = c.params.get('lean', False)
  pieces = [_mk_piece(c, pb, i, n_notes, lean) for i in range(M)]
  durs = None
  if use_dur:
    durs = [c.real('dur%d' % i, 0) for i in range(M)]
  befores = [c.snapshot(p['ns']) for p in pieces]
  res, err = c.raises(sl.concatenate_sequences, [p['ns'] for p in pieces],
                      list(durs) if durs else None)
  for p, b in zip(pieces, befores):
    c.check(c.msg_eq(p['ns'], b), 'inputs unchanged')
  short = c.Or([d < p['tt'] for d, p in zip(durs, pieces)]) if durs else False
  if err is not None:
    c.check(isinstance(err, ValueError), 'only ValueError')
    c.check(short, 'raised although every duration covers its piece')
    c.cover('short duration rejected')
    return
  c.check(c.Not(short), 'too short duration accepted')
  # offsets
  offs = []
  cur = 0
  total = 0
  for i, p in enumerate(pieces):
    offs.append(cur)
    # total_time after merging piece i (MergeFrom keeps the old value when the
    # new one is zero)
    new_tt = p['tt'] + cur
    total = c.If(c.eq(new_tt, 0), total, new_tt)
    cur = cur + durs[i] if durs else total
  got_notes = list(res.notes)
  c.check(len(got_notes) == M * n_notes, 'every note kept, none invented')
  k = 0
  for i, p in enumerate(pieces):
    for n in p['notes']:
      m = got_notes[k]
      k += 1
      c.check(c.And(c.eq(m.start_time, n['start_time'] + offs[i]),
                    c.eq(m.end_time, n['end_time'] + offs[i]),
                    c.eq(m.pitch, n['pitch']), c.eq(m.velocity, n['velocity'])),
              'note of piece i placed after the summed durations before it')
  for i, p in enumerate(pieces):
    c.check(c.eq(res.control_changes[i].time, p['cc'] + offs[i]),
            'control change moved with its piece')
  c.check(c.eq(res.total_time, total), 'total_time')
  for name, key, val in (('tempos', 'tp', lambda e: (e.qpm,)),
                         ('time_signatures', 'ts', lambda e: (e.numerator,)),
                         ('key_signatures', 'ks', lambda e: (e.key,))):
    if lean and key not in pieces[0]:
      c.check(len(getattr(res, name)) == 0, 'no %s invented' % name)
      continue
    evs = [(p[key][0] + offs[i], (p[key][1],)) for i, p in enumerate(pieces)]
    kept = _dedup(c, evs)
    got = [(e.time, val(e)) for e in getattr(res, name)]
    c.check(len(got) == len(kept), '%s: only redundant events dropped' % name)
    c.check(c.And([c.And(c.eq(a[0], b[0]), K.key_eq(c, a[1], b[1]))
                   for a, b in zip(got, kept)] or [True]),
            '%s: kept events at their shifted times' % name)
  c.check(not res.HasField('subsequence_info'), 'subsequence_info cleared')
  if M >= 2 and not lean:
    c.cover('second tempo repeats the first (dropped)',
            c.eq(pieces[0]['tp'][1], pieces[1]['tp'][1]))
    c.cover('first piece has zero duration', c.eq(offs[1], 0))


def h_concat_mismatch(c):
  pb, sl = c.pb, c.mod('sequences_lib')
  a = pb.NoteSequence()
  b = pb.NoteSequence()
  res, err = c.raises(sl.concatenate_sequences, [a, b], [c.real('d', 1, 2)])
  c.check(err is not None and isinstance(err, ValueError),
          'length mismatch rejected with ValueError')


def h_repeat(c):
  pb, sl = c.pb, c.mod('sequences_lib')
  n_notes = c.params['N']
  ns = pb.NoteSequence()
  notes = K.add_notes(c, ns, n_notes)
  tt = K.well_formed_total(c, ns, notes)
  c.assume(tt > 0)
  ns.tempos.add(time=0, qpm=c.real('q', 10, 480))
  use_sd = c.params['seq_dur']
  D = tt
  sd = None
  if use_sd:
    sd = c.real('sd')
    c.assume(sd >= tt)
    D = sd
  dur = c.real('dur')
  c.assume(dur > 0)
  c.assume(dur <= c.params['max_rep'] * D)
  before = c.snapshot(ns)
  res = sl.repeat_sequence_to_duration(ns, dur, sd)
  c.check(c.msg_eq(ns, before), 'input unchanged')
  exp = []
  for r in range(c.params['max_rep']):
    for n in notes:
      s = n['start_time'] + r * D
      exp.append((s < dur, (s, c.Min(n['end_time'] + r * D, dur), n['pitch'],
                            n['velocity'])))
  got = [(m.start_time, m.end_time, m.pitch, m.velocity) for m in res.notes]
  c.check(K.multiset_eq(c, got, exp),
          'notes = copies at multiples of the duration, cut at the target')
  c.check(len(res.tempos) == 1, 'repeated tempo dropped as redundant')
  c.check(not res.HasField('subsequence_info'), 'subsequence_info cleared')
  for m in res.notes:
    c.check(m.end_time <= dur, 'nothing past the requested duration')
  c.cover('target is an exact multiple of the duration', c.eq(dur, 2 * D))


def _time_func(c, m1, m2, bp, off):
  def f(t):
    if t < bp:
      return off + m1 * t
    return off + m1 * bp + m2 * (t - bp)
  return f


def _num(c, x):
  return Fraction(x[0], x[1]) if c.mode == 'sym' else x[0] / x[1]


def h_adjust(c):
  pb, sl = c.pb, c.mod('sequences_lib')
  ns = pb.NoteSequence()
  info = K.populate_full(c, ns, c.params['N'])
  m1, m2 = _num(c, c.params['m1']), _num(c, c.params['m2'])
  bp = c.real('bp', 0)
  off = c.real('off', -4, 4)
  f = _time_func(c, m1, m2, bp, off)
  # declarative copy of the map (no fork)
  g = lambda t: c.If(t < bp, off + m1 * t, off + m1 * bp + m2 * (t - bp))
  before = c.snapshot(ns)
  # minimum_duration: collapsed notes are kept with this duration instead of
  # being skipped
  mind = c.real('min_dur', 0, 1) if c.params.get('min_dur') is True else None
  if mind is not None:
    c.assume(mind > 0)
    res, err = c.raises(sl.adjust_notesequence_times, ns, f, mind)
  elif c.params.get('min_dur') == 'zero':
    # the degenerate value 0 means "no minimum": collapsed notes are skipped
    res, err = c.raises(sl.adjust_notesequence_times, ns, f,
                        c.choice('zero', [0, 0.0]))
  else:
    res, err = c.raises(sl.adjust_notesequence_times, ns, f)
  c.check(c.msg_eq(ns, before), 'input unchanged')
  notes = info['notes']
  if mind is not None:
    bad_note = [c.Or(c.And(c.Not(c.eq(g(n['start_time']), g(n['end_time']))),
                           g(n['end_time']) < g(n['start_time'])),
                     g(n['start_time']) < 0) for n in notes]
  else:
    bad_note = [c.And(c.Not(c.eq(g(n['start_time']), g(n['end_time']))),
                      c.Or(g(n['end_time']) < g(n['start_time']),
                           g(n['start_time']) < 0)) for n in notes]
  ev_times = [t for (name, _, t) in info['events']
              if name not in ('tempos', 'section_annotations')]
  bad_ev = [g(t) < 0 for t in ev_times]
  bad = c.Or(bad_note + bad_ev)
  if err is not None:
    c.check(isinstance(err, sl.InvalidTimeAdjustmentError),
            'only InvalidTimeAdjustmentError')
    c.check(bad, 'raised although the map is monotone and non-negative here')
    c.cover('rejected')
    return
  c.check(c.Not(bad), 'reversing / negative map accepted')
  adj, skipped = res
  collapsed = [c.eq(g(n['start_time']), g(n['end_time'])) for n in notes]
  if mind is not None:
    c.check(c.eq(skipped, 0), 'with minimum_duration nothing is skipped')
    exp = [(True, (g(n['start_time']),
                   c.If(col, g(n['end_time']) + mind, g(n['end_time'])),
                   n['pitch'], n['velocity'], n['instrument'], n['program'],
                   n['is_drum'])) for n, col in zip(notes, collapsed)]
  else:
    c.check(c.eq(skipped, c.Count(collapsed)), 'skipped = zero-length notes')
    exp = [(c.Not(col), (g(n['start_time']), g(n['end_time']), n['pitch'],
                         n['velocity'], n['instrument'], n['program'],
                         n['is_drum'])) for n, col in zip(notes, collapsed)]
  got = [(m.start_time, m.end_time, m.pitch, m.velocity, m.instrument,
          m.program, m.is_drum) for m in adj.notes]
  c.check(K.multiset_eq(c, got, exp), 'every surviving note mapped by the map')
  c.check(c.eq(adj.total_time, c.Max([0] + [c.If(cd, k[1], 0) for cd, k in exp])),
          'total_time = last surviving note end')
  expm = copy.deepcopy(ns)
  for name in ('control_changes', 'pitch_bends', 'time_signatures',
               'key_signatures', 'text_annotations'):
    for e in getattr(expm, name):
      e.time = g(e.time)
    c.check(c.And([c.msg_eq(a, b) for a, b in zip(getattr(adj, name),
                                                 getattr(expm, name))]),
            '%s mapped, nothing else changed' % name)
  c.check(len(adj.tempos) == 0, 'tempos deleted')
  c.cover('a note collapses to zero length', collapsed[0])
  c.cover('accepted')


def h_rectify(c):
  pb, sl = c.pb, c.mod('sequences_lib')
  TA = pb.NoteSequence.TextAnnotation
  B = c.params['B']
  bpm = c.params['bpm']
  ns = pb.NoteSequence()
  notes = K.add_notes(c, ns, 1)
  tt = K.well_formed_total(c, ns, notes)
  beats = []
  for i in range(B):
    t = c.real('b%d' % i, 0)
    ns.text_annotations.add(time=t, annotation_type=TA.BEAT)
    beats.append(t)
  ns.tempos.add(time=0, qpm=100)
  before = c.snapshot(ns)
  res, err = c.raises(sl.rectify_beats, ns, bpm)
  c.check(c.msg_eq(ns, before), 'input unchanged')
  usable = [b <= tt for b in beats]
  if err is not None:
    c.check(isinstance(err, sl.RectifyBeatsError), 'only RectifyBeatsError')
    c.check(c.Not(c.Or(usable or [False])), 'raised although there are beats')
    c.cover('no beats rejected')
    return
  c.check(c.Or(usable or [False]), 'no usable beat but accepted')
  rect, align = res
  spb = (Fraction(60, bpm) if c.mode == 'sym' else 60.0 / bpm)
  # rank of a time among the distinct grid points {0} U beats<=tt U {tt}
  pts = [0] + [b for b, u in zip(beats, usable) if bool(u)] + [tt]
  uniq = []
  for p in sorted(pts):
    if not uniq or bool(p > uniq[-1]):
      uniq.append(p)

  def g(t):
    # piecewise-linear map through (uniq[k], k*spb); right of the grid -> tt
    if t < uniq[0]:
      return 0.0
    if t > uniq[-1]:
      return tt
    if len(uniq) == 1:
      return 0
    for k in range(len(uniq) - 1):
      if t < uniq[k + 1]:
        return k * spb + spb * (t - uniq[k]) / (uniq[k + 1] - uniq[k])
    return (len(uniq) - 1) * spb

  out_beats = [a for a in rect.text_annotations if a.annotation_type == TA.BEAT]
  c.check(len(out_beats) == B, 'beat annotations kept')
  for a, b, u in zip(out_beats, beats, usable):
    if bool(u):
      k = [i for i, p in enumerate(uniq) if bool(c.eq(p, b))][0]
      c.check(c.approx(a.time, k * spb, 1e-9), 'beat lands on k*60/bpm')
  if len(rect.notes) == 1:
    n = notes[0]
    # (up to 1e-9: the code multiplies k * 60. / bpm in doubles, which is not
    # the exact rational for tempi such as 97)
    c.check(c.And(c.approx(rect.notes[0].start_time, g(n['start_time']), 1e-9),
                  c.approx(rect.notes[0].end_time, g(n['end_time']), 1e-9)),
            'note mapped by the beat interpolation')
  else:
    c.check(bool(c.eq(g(notes[0]['start_time']), g(notes[0]['end_time']))),
            'only a collapsed note is dropped')
  c.check(len(rect.tempos) == 1 and bool(c.eq(rect.tempos[0].qpm, bpm)),
          'single tempo = requested bpm')
  c.check(len(rect.time_signatures) == 0, 'time signatures deleted')
  c.cover('accepted')


def h_rectify_quantized(c):
  pb, sl = c.pb, c.mod('sequences_lib')
  ns = pb.NoteSequence()
  ns.quantization_info.steps_per_second = c.int('sps', 1, 100)
  res, err = c.raises(sl.rectify_beats, ns, 120)
  c.check(err is not None and isinstance(err, sl.QuantizationStatusError),
          'quantized input rejected')


HARNESSES = {
    'h_shift': h_shift,
    'h_stretch': h_stretch,
    'h_stretch_quantized': h_stretch_quantized,
    'h_concat': h_concat,
    'h_concat_mismatch': h_concat_mismatch,
    'h_repeat': h_repeat,
    'h_adjust': h_adjust,
    'h_rectify': h_rectify,
    'h_rectify_quantized': h_rectify_quantized,
}


def jobs(tier):
  J = []

  def add(h, budget=150, required=True, **params):
    J.append({'harness': h, 'params': params, 'budget_s': budget,
              'required': required})

  deep = tier == 'thorough'
  add('h_shift', N=1)
  add('h_shift', N=2)
  add('h_stretch', N=1)
  add('h_stretch', N=2)
  add('h_stretch_quantized')
  add('h_concat', M=1, N=1, durations=False)
  add('h_concat', M=2, N=1, durations=False)
  add('h_concat', M=2, N=1, durations=True)
  # three and four pieces (offsets accumulate), notes + control changes only
  add('h_concat', M=3, N=1, durations=False, lean=True, budget=600)
  add('h_concat', M=3, N=1, durations=True, lean=True, budget=600)
  add('h_concat', M=4, N=1, durations=False, lean=True, budget=900)
  # a state value that returns (A-B-A) or is restated (A-B-B) across pieces
  add('h_concat', M=3, N=1, durations=False, lean='tempo', budget=900)
  add('h_concat', M=3, N=1, durations=True, lean='key', budget=900)
  add('h_concat_mismatch')
  add('h_repeat', N=1, seq_dur=False, max_rep=2)
  add('h_repeat', N=1, seq_dur=True, max_rep=2)
  slopes = [[0, 1], [1, 2], [1, 1], [2, 1], [-1, 1]]
  for m1, m2 in [(1, 2), (2, 0), (3, 1), (2, 4), (0, 2)]:
    add('h_adjust', N=1, m1=slopes[m1], m2=slopes[m2])
  add('h_adjust', N=2, m1=slopes[1], m2=slopes[3])
  add('h_adjust', N=2, m1=slopes[2], m2=slopes[0])
  add('h_adjust', N=1, m1=slopes[2], m2=slopes[0], min_dur=True)
  add('h_adjust', N=1, m1=slopes[2], m2=slopes[0], min_dur='zero')
  add('h_rectify', B=1, bpm=60)
  add('h_rectify', B=2, bpm=120)
  add('h_rectify_quantized')
  if deep:
    add('h_shift', N=3, budget=900)
    add('h_stretch', N=3, budget=900)
    add('h_concat', M=3, N=1, durations=False, budget=1800)
    add('h_concat', M=3, N=1, durations=True, budget=1800)
    add('h_concat', M=2, N=2, durations=True, budget=1800)
    add('h_repeat', N=2, seq_dur=False, max_rep=3, budget=1800)
    add('h_repeat', N=2, seq_dur=True, max_rep=3, budget=1800)
    for m1 in range(5):
      for m2 in range(5):
        add('h_adjust', N=1, m1=slopes[m1], m2=slopes[m2], budget=900)
    for m1, m2 in [(1, 2), (2, 0), (3, 4), (0, 3)]:
      add('h_adjust', N=2, m1=slopes[m1], m2=slopes[m2], budget=1800)
    add('h_rectify', B=3, bpm=97, budget=1800, required=False)
    add('h_rectify', B=2, bpm=60, budget=900)
  return J
