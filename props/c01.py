"""C01 -- quantization snaps every event to the nearest step, changes nothing
else, and rejects what it documents as rejected."""
import copy

from props import common as K

META = {
    'level': 'model_checking',
    'level_text':
        'E1: the real quantize_note_sequence(_absolute)/_quantize_notes/'
        'quantize_to_step are executed on symbolic sequences (times, tempo, '
        'values free; storage order of tempos/time signatures arbitrary) and '
        'on every path the solver shows that the result equals the input copy '
        'with exactly step=floor(t*sps+1/2) written into the quantized fields, '
        'the single tempo/time signature made explicit at 0, and nothing else '
        'changed; rejection clauses are decided as "raises iff". E2: the '
        'binary64 behaviour of quantize_to_step itself (nearest, monotone, '
        'negative cut-off) is decided as QF_FP lemmas generated from its AST '
        '(L1-L6 at steps_per_second = 1; L7 for any steps_per_second in '
        '[1,1000] and an explicit cutoff; L5/L5r for the derived steps per '
        'second).',
    'level_note':
        'Trusted: z3; reals for doubles in E1 (rounding only in the E2 '
        'lemmas); symproto (validated per sampled path on upb); the FP '
        'translator (validated on concrete inputs each run). The product '
        't*steps_per_second is correctly rounded multiplication by a positive '
        'constant, whose monotonicity is an axiom, not a lemma.',
    'engines': ['symex', 'fpk'],
    'technique':
        'bounded symbolic execution of the real functions with z3 (reals) + '
        'QF_FP lemmas generated from the AST of quantize_to_step',
    'functions': [('sequences_lib', 'quantize_to_step'),
                  ('sequences_lib', 'steps_per_quarter_to_steps_per_second'),
                  ('sequences_lib', '_quantize_notes'),
                  ('sequences_lib', 'quantize_note_sequence'),
                  ('sequences_lib', 'quantize_note_sequence_absolute'),
                  ('sequences_lib', '_is_power_of_2'),
                  ('sequences_lib', 'stretch_note_sequence'),
                  ('sequences_lib', 'is_quantized_sequence'),
                  ('sequences_lib', 'is_relative_quantized_sequence'),
                  ('sequences_lib', 'is_absolute_quantized_sequence')],
    'assumptions': [
        'E1 models double fields as exact reals',
        'non-negative event times in the snap harnesses (negative times only in '
        'the rejection harnesses and in the direct quantize_to_step harness '
        'h4_q2s / lemmas L4, L7)',
        'note end_time >= start_time everywhere (inverted notes: see the '
        'FINDING-CANDIDATE comment in jobs())',
        'total_time >= every note end except in the total=free jobs (any '
        'total_time >= 0, also 0 / stale)',
        'times at most half a step before zero: nearest step (0) asserted; '
        'between 1/2 and 2 steps before zero only "accepted or '
        'NegativeTimeError" (not documented)',
        'which error wins when several documented rejections coincide is not '
        'asserted (h2_combined: the error raised names a cause that is present)',
        'negative numerators are not tried (documented: only 0 is rejected)',
        'L7: explicit quantize_cutoff follows the anchor formula int(t*sps + (1 '
        '- cutoff)) (truncation toward zero) for t in [-2^30,2^30], '
        'steps_per_second any double or int in [1,1000], cutoff in [-4,4]',
        'L5r: standard model of binary64 (each operation exact*(1+d), |d| <= '
        '2^-53), tolerance 2^-51 relative',
        'L5: integer tempi 10..480 whose steps per second is an integer; '
        'steps_per_quarter from {1,2,3,4,6,8,12,24,30,50,60,96} (quick) / '
        '1..96 (thorough)',
        'E2 lemmas: x = t*steps_per_second is an arbitrary double in the stated '
        'range; the multiplication itself is covered by the axiom that '
        'correctly rounded multiplication by a positive constant is monotone',
    ],
    'bounds': {
        'quick': 'N<=2 notes (also 0) + 0..2 control changes + 0..2 '
                 'annotations; '
                 'steps_per_second in {1,3,31,100,1000}; steps_per_quarter in '
                 '{1,4,24,96} with tempo symbolic in [10,480]; tempo/meter '
                 'explicit, absent, one of them absent, late 120/4-4, stated '
                 'twice; <=3 tempos / '
                 'time signatures in arbitrary storage order (with and without '
                 'a note + control change); denominators 0..130 + 17 large / '
                 'negative values; two tempos + two time signatures + possibly '
                 'negative control change together (h2_combined); negative '
                 'times through both entry points, harmless events stored '
                 'before and after; absolute quantization given 2 tempos / 2 '
                 'meters (any numerator 0..12, denominator 0..9); direct calls '
                 'of quantize_to_step (cutoff in [0,1] positional / keyword, '
                 'sps in {3,100,8.25}, t in [-10,1000]), '
                 'steps_per_quarter_to_steps_per_second (int / real tempo) and '
                 '_quantize_notes on a sequence with stale quantized fields; '
                 'the real stretch_note_sequence with k in {3/2,1/2}',
        'thorough': 'N<=3; steps_per_second symbolic in [1,1000]; every '
                    'steps_per_quarter of {1,2,3,4,6,8,12,24,96}',
    },
    'outside': ['more events than the bounds', '|t*sps| > 2^40 in the lemmas'],
}


def _step(c, t, sps):
  return c.Floor(t * sps + 0.5)


def _populate_other_fields(c, ns):
  """One element of every field quantization must not touch."""
  ns.id = 'id-1'
  ns.filename = 'f.mid'
  ns.ticks_per_quarter = c.int('tpq', 1, 960)
  ns.key_signatures.add(time=c.real('ks_t', 0), key=c.int('ks_k', 0, 11))
  ns.pitch_bends.add(time=c.real('pb_t', 0), bend=c.int('pb_b', -8192, 8191))
  ns.part_infos.add(part=1, name='p')
  ns.instrument_infos.add(instrument=0, name='i')
  ns.section_annotations.add(time=c.real('sa_t', 0), section_id=3)
  ns.source_info.parser = 2
  ns.sequence_metadata.title = 't'
  ns.sequence_metadata.genre.append('g')
  ns.subsequence_info.start_time_offset = c.real('sub_off', 0)
  # fields that are at their default in most hand-built sequences
  ns.key_signatures[0].mode = 1
  ns.pitch_bends[0].instrument = 2
  ns.pitch_bends[0].program = 9
  ns.pitch_bends[0].is_drum = True
  ns.subsequence_info.end_time_offset = 0.25
  g = ns.section_groups.add(num_times=2)
  g.sections.add(section_id=3)
  ns.reference_number = 7
  ns.collection_name = 'coll'


def _events(c, ns, N, ncc=1, nta=1, t_lo=0):
  notes = K.add_notes(c, ns, N, instruments=(0, 3), drums=True, t_lo=t_lo)
  for i, m in enumerate(ns.notes):
    m.program = 10 + i
    m.pitch_name = 3
    m.numerator = 1
    m.denominator = 8
    m.part = 1
    m.voice = 2
  ccs, tas = [], []
  for i in range(ncc):
    t = c.real('cc%d_t' % i, t_lo)
    ns.control_changes.add(time=t, control_number=c.int('cc%d_n' % i, 0, 127),
                           control_value=c.int('cc%d_v' % i, 0, 127),
                           instrument=2, program=5 + i, is_drum=True)
    ccs.append(t)
  for i in range(nta):
    t = c.real('ta%d_t' % i, t_lo)
    ns.text_annotations.add(time=t, text='C', annotation_type=c.int(
        'ta%d_ty' % i, 0, 2))
    tas.append(t)
  return notes, ccs, tas


def _expected(c, ns, notes, ccs, tas, tt, sps):
  """The input copy with exactly the quantized fields written."""
  exp = copy.deepcopy(ns)
  tq = _step(c, tt, sps)
  for m, n in zip(exp.notes, notes):
    s = _step(c, n['start_time'], sps)
    e = c.Max(_step(c, n['end_time'], sps), s + 1)
    m.quantized_start_step = s
    m.quantized_end_step = e
    tq = c.Max(tq, e)
  for m, t in zip(exp.control_changes, ccs):
    m.quantized_step = _step(c, t, sps)
  for m, t in zip(exp.text_annotations, tas):
    m.quantized_step = _step(c, t, sps)
  exp.total_quantized_steps = tq
  return exp


def _monotone(c, times, sps):
  conds = []
  for a in times:
    for b in times:
      if a is not b:
        conds.append(c.Implies(a <= b, _step(c, a, sps) <= _step(c, b, sps)))
  return c.And(conds or [True])


def _total(c, ns, notes):
  """total_time: well formed (>= every note end) by default; with the job
  parameter total='free' any non-negative value, also one smaller than the
  note ends (hand-built sequences with a stale / zero total_time)."""
  if c.params.get('total') == 'free':
    tt = c.real('tt', 0)
    ns.total_time = tt
    return tt
  return K.well_formed_total(c, ns, notes)


def _predicates(c, sl, q, relative):
  """The module's own predicates recognise the result."""
  c.check(sl.is_quantized_sequence(q), 'result is_quantized_sequence')
  c.check(bool(sl.is_relative_quantized_sequence(q)) == relative,
          'is_relative_quantized_sequence of the result')
  c.check(bool(sl.is_absolute_quantized_sequence(q)) == (not relative),
          'is_absolute_quantized_sequence of the result')
  _, err = c.raises(sl.assert_is_relative_quantized_sequence, q)
  c.check((err is None) == relative,
          'assert_is_relative_quantized_sequence of the result')
  _, err = c.raises(sl.assert_is_absolute_quantized_sequence, q)
  c.check((err is None) == (not relative),
          'assert_is_absolute_quantized_sequence of the result')


def h1_absolute(c):
  N = c.params['N']
  pb, sl = c.pb, c.mod('sequences_lib')
  ns = pb.NoteSequence()
  notes, ccs, tas = _events(c, ns, N, c.params.get('ncc', 1),
                            c.params.get('nta', 1))
  tt = _total(c, ns, notes)
  _populate_other_fields(c, ns)
  ns.tempos.add(time=c.real('tp_t', 0), qpm=c.real('tp_q', 10, 480))
  ns.time_signatures.add(time=c.real('ts_t', 0), numerator=3, denominator=8)
  if c.params.get('meta') == 'multi':
    # everything the tempo-relative sibling rejects: "Tempos and time
    # signatures will be copied but ignored"
    ns.tempos.add(time=c.real('tp1_t', 0), qpm=c.real('tp1_q', 10, 480))
    ns.time_signatures.add(time=c.real('ts1_t', 0),
                           numerator=c.int('ts1_n', 0, 12),
                           denominator=c.int('ts1_d', 0, 9))
  if c.params.get('sps') == 'sym':
    sps = c.int('sps', 1, 1000)
  else:
    sps = c.params['sps']
  before = c.snapshot(ns)
  if c.params.get('meta') == 'multi':
    q, err = c.raises(sl.quantize_note_sequence_absolute, ns, sps)
    c.check(err is None,
            'absolute quantization ignores tempo / time signature changes')
    if err is not None:
      return
    c.cover('two tempos and a bad second time signature',
            c.And(c.Not(c.eq(ns.tempos[0].qpm, ns.tempos[1].qpm)),
                  c.eq(ns.time_signatures[1].denominator, 3)))
  else:
    q = sl.quantize_note_sequence_absolute(ns, sps)
  exp = _expected(c, ns, notes, ccs, tas, tt, sps)
  exp.quantization_info.steps_per_second = sps
  c.check(c.msg_eq(q, exp),
          'result = input copy + nearest steps (nothing else changed)')
  c.check(q is not ns, 'result is a copy')
  for m in q.notes:
    c.check(m.quantized_end_step >= m.quantized_start_step + 1,
            'every note at least one step long')
    c.check(q.total_quantized_steps >= m.quantized_end_step,
            'total_quantized_steps covers every note end')
  times = [n['start_time'] for n in notes] + [n['end_time'] for n in notes
                                             ] + ccs + tas
  c.check(_monotone(c, times, sps), 'step assignment monotone in time')
  c.check(c.msg_eq(ns, before), 'input unchanged')
  if c.params.get('pred'):
    _predicates(c, sl, q, False)
  if N and c.params.get('total') == 'free':
    c.cover('note ends after the stale total_time',
            _step(c, notes[-1]['end_time'], sps) > _step(c, tt, sps) + 1)
  if N:
    x = notes[0]['start_time'] * sps
    c.cover('exact half-step tie rounds up',
            c.And(c.eq(x, c.Floor(x) + 0.5),
                  c.eq(q.notes[0].quantized_start_step, c.Floor(x) + 1)))
    c.cover('zero-length after snapping gets one step',
            c.eq(_step(c, notes[0]['start_time'], sps),
                 _step(c, notes[0]['end_time'], sps)))


def h1_relative(c):
  N = c.params['N']
  spq = c.params['spq']
  # 'explicit' | 'absent' | 'late120' | 'notempo' | 'late120_nometer' | 'dup'
  mode = c.params['tempo']
  pb, sl = c.pb, c.mod('sequences_lib')
  ns = pb.NoteSequence()
  notes, ccs, tas = _events(c, ns, N, c.params.get('ncc', 1),
                            c.params.get('nta', 1))
  tt = _total(c, ns, notes)
  _populate_other_fields(c, ns)
  if mode == 'explicit':
    qpm = c.real('qpm', 10, 480)
    ns.tempos.add(time=0, qpm=qpm)
    ns.time_signatures.add(time=0, numerator=c.int('ts_n', 1, 12),
                           denominator=c.choice('ts_d', [2, 4, 8]))
  elif mode == 'late120':
    qpm = 120.0
    ns.tempos.add(time=c.real('tp_t', 0), qpm=120)
    ns.time_signatures.add(time=c.real('ts_t', 0), numerator=4, denominator=4)
  elif mode == 'notempo':
    # no tempo (implicit 120 qpm) but an explicit meter
    qpm = 120.0
    ns.time_signatures.add(time=0, numerator=c.int('ts_n', 1, 12),
                           denominator=8)
  elif mode == 'late120_nometer':
    # a late 120 qpm tempo is no tempo change; no meter (implicit 4/4)
    qpm = 120.0
    ns.tempos.add(time=c.real('tp_t', 0), qpm=120)
  elif mode == 'dup':
    # the same tempo / meter stated twice (second statement at time 0, first
    # anywhere) is not a change
    qpm = c.real('qpm', 10, 480)
    ns.tempos.add(time=c.real('tp_t', 0), qpm=qpm)
    ns.tempos.add(time=0, qpm=qpm)
    nu = c.int('ts_n', 1, 12)
    ns.time_signatures.add(time=c.real('ts_t', 0), numerator=nu, denominator=8)
    ns.time_signatures.add(time=0, numerator=nu, denominator=8)
  else:
    qpm = 120.0
  sps = spq * qpm / 60.0
  before = c.snapshot(ns)
  q = sl.quantize_note_sequence(ns, spq)
  exp = _expected(c, ns, notes, ccs, tas, tt, sps)
  exp.quantization_info.steps_per_quarter = spq
  if mode in ('absent', 'notempo'):
    exp.tempos.add(qpm=120.0, time=0)
  else:
    exp.tempos[0].time = 0
    del exp.tempos[1:]
  if mode in ('absent', 'late120_nometer'):
    exp.time_signatures.add(numerator=4, denominator=4, time=0)
  else:
    exp.time_signatures[0].time = 0
    del exp.time_signatures[1:]
  c.check(c.msg_eq(q, exp),
          'result = input copy + nearest steps + explicit single tempo/meter')
  c.check(q is not ns, 'result is a copy')
  c.check(len(q.tempos) == 1 and len(q.time_signatures) == 1,
          'exactly one tempo and one time signature')
  for m in q.notes:
    c.check(m.quantized_end_step >= m.quantized_start_step + 1,
            'every note at least one step long')
    c.check(q.total_quantized_steps >= m.quantized_end_step,
            'total_quantized_steps covers every note end')
  times = [n['start_time'] for n in notes] + [n['end_time'] for n in notes
                                             ] + ccs + tas
  c.check(_monotone(c, times, sps), 'step assignment monotone in time')
  c.check(c.msg_eq(ns, before), 'input unchanged')
  if c.params.get('pred'):
    _predicates(c, sl, q, True)
  if N and c.params.get('total') == 'free':
    c.cover('note ends after the stale total_time',
            _step(c, notes[-1]['end_time'], sps) > _step(c, tt, sps) + 1)


def h3_stretch(c):
  """Relative quantisation is invariant under uniform stretching."""
  N = c.params['N']
  spq = c.params['spq']
  real = c.params.get('real')  # stretch with the real stretch_note_sequence
  pb, sl = c.pb, c.mod('sequences_lib')
  # k is concrete per job (grid); with k symbolic the path conditions contain
  # (s*k)*(q/k), which z3's linear core cannot cancel (measured: unknown after
  # 20 s).  The symbolic-k statement is lemma L-stretch below.
  from fractions import Fraction  # pylint: disable=g-import-not-at-top
  kn, kd = c.params['k']
  k = Fraction(kn, kd) if c.mode == 'sym' else kn / kd
  qpm = c.real('qpm', 10, 480)
  ns1 = pb.NoteSequence()
  ns2 = pb.NoteSequence()
  for i in range(N):
    s = c.real('s%d' % i, 0)
    d = c.real('d%d' % i, 0)
    ns1.notes.add(start_time=s, end_time=s + d, pitch=60, velocity=80)
    ns2.notes.add(start_time=s * k, end_time=(s + d) * k, pitch=60, velocity=80)
  tt = c.real('tt', 0)
  ns1.total_time = tt
  ns2.total_time = tt * k
  ns1.tempos.add(qpm=qpm)
  ns2.tempos.add(qpm=qpm / k)
  if c.params.get('ev'):
    # a control change, a text annotation and a (single) time signature
    t1, t2 = c.real('cc_t', 0), c.real('ta_t', 0)
    for ns_, f in ((ns1, 1), (ns2, k)):
      ns_.control_changes.add(time=t1 * f, control_number=64, control_value=1)
      ns_.text_annotations.add(time=t2 * f, text='C', annotation_type=1)
      ns_.time_signatures.add(time=0, numerator=3, denominator=4)
  if real:
    ns2 = sl.stretch_note_sequence(ns1, k)
    c.check(ns2 is not ns1, 'stretch_note_sequence returns a copy')
  q1 = sl.quantize_note_sequence(ns1, spq)
  q2 = sl.quantize_note_sequence(ns2, spq)
  for a, b in zip(q1.notes, q2.notes):
    c.check(c.And(c.eq(a.quantized_start_step, b.quantized_start_step),
                  c.eq(a.quantized_end_step, b.quantized_end_step)),
            'steps invariant under stretching')
  c.check(len(q1.notes) == len(q2.notes) == N, 'same notes after stretching')
  for a, b in zip(list(q1.control_changes) + list(q1.text_annotations),
                  list(q2.control_changes) + list(q2.text_annotations)):
    c.check(c.eq(a.quantized_step, b.quantized_step),
            'event steps invariant under stretching')
  c.check(c.eq(q1.total_quantized_steps, q2.total_quantized_steps),
          'total steps invariant under stretching')


def _reject_common(c, sl, ns, spq):
  before = c.snapshot(ns)
  res, err = c.raises(sl.quantize_note_sequence, ns, spq)
  c.check(c.msg_eq(ns, before), 'input unchanged (also when raising)')
  return res, err


def _reject_events(c, ns):
  """Optional events in the rejection harnesses (job parameter ev=1): one note
  and one control change with free non-negative times."""
  if c.params.get('ev'):
    return _events(c, ns, 1, 1, 0)
  return [], [], []


def _accepted(c, res, before, ev, tt, spq, qpm, add_tempo, add_ts):
  """Accepted branch of the rejection harnesses: the result is the input copy
  + steps at spq*qpm/60 steps per second + the single explicit tempo/meter."""
  notes, ccs, tas = ev
  exp = _expected(c, before, notes, ccs, tas, tt, spq * qpm / 60.0)
  exp.quantization_info.steps_per_quarter = spq
  if add_tempo:
    exp.tempos.add(qpm=120.0, time=0)
  else:
    exp.tempos[0].time = 0
    del exp.tempos[1:]
  if add_ts:
    exp.time_signatures.add(numerator=4, denominator=4, time=0)
  else:
    exp.time_signatures[0].time = 0
    del exp.time_signatures[1:]
  c.check(c.msg_eq(res, exp),
          'accepted: result = input copy + steps + single tempo/meter at 0')


def h2_tempos(c):
  """MultipleTempoError iff there is an explicit or implicit tempo change."""
  K_ = c.params['K']
  pb, sl = c.pb, c.mod('sequences_lib')
  ns = pb.NoteSequence()
  ev = _reject_events(c, ns)
  tt = c.real('tt', 0)
  ns.total_time = tt
  tempos = []
  for i in range(K_):
    t = c.real('tp%d_t' % i, 0)
    q = c.real('tp%d_q' % i, 10, 480)
    ns.tempos.add(time=t, qpm=q)
    tempos.append((t, q))
  res, err = _reject_common(c, sl, ns, 4)
  tmin = c.Min([t for t, _ in tempos])
  all_same = c.And([c.eq(q, tempos[0][1]) for _, q in tempos[1:]] or [True])
  change = c.Or(c.Not(all_same),
                c.And(tmin > 0, c.Not(c.eq(tempos[0][1], 120.0))))
  if err is not None:
    c.check(isinstance(err, sl.MultipleTempoError), 'only MultipleTempoError')
    c.check(change, 'raised although there is no tempo change')
    c.cover('rejected')
  else:
    c.check(c.Not(change), 'tempo change accepted instead of rejected')
    c.check(len(res.tempos) == 1, 'one tempo')
    c.check(c.And(c.eq(res.tempos[0].qpm, tempos[0][1]),
                  c.eq(res.tempos[0].time, 0)), 'the single tempo at time 0')
    _accepted(c, res, ns, ev, tt, 4, tempos[0][1], False, True)
    c.cover('accepted')
  if K_ >= 2:
    c.cover('later tempo stored first', tempos[0][0] > tempos[1][0])


def h2_timesigs(c):
  """MultipleTimeSignatureError iff explicit or implicit meter change."""
  K_ = c.params['K']
  pb, sl = c.pb, c.mod('sequences_lib')
  ns = pb.NoteSequence()
  ev = _reject_events(c, ns)
  tt = c.real('tt', 0)
  ns.total_time = tt
  tss = []
  for i in range(K_):
    t = c.real('ts%d_t' % i, 0)
    nu = c.int('ts%d_n' % i, 1, 12)
    de = c.choice('ts%d_d' % i, [2, 4, 8])
    ns.time_signatures.add(time=t, numerator=nu, denominator=de)
    tss.append((t, nu, de))
  res, err = _reject_common(c, sl, ns, 4)
  tmin = c.Min([t for t, _, _ in tss])
  all_same = c.And([c.And(c.eq(nu, tss[0][1]), c.eq(de, tss[0][2]))
                    for _, nu, de in tss[1:]] or [True])
  is44 = c.And(c.eq(tss[0][1], 4), c.eq(tss[0][2], 4))
  change = c.Or(c.Not(all_same), c.And(tmin > 0, c.Not(is44)))
  if err is not None:
    c.check(isinstance(err, sl.MultipleTimeSignatureError),
            'only MultipleTimeSignatureError')
    c.check(change, 'raised although there is no time signature change')
    c.cover('rejected')
  else:
    c.check(c.Not(change), 'time signature change accepted instead of rejected')
    c.check(len(res.time_signatures) == 1, 'one time signature')
    c.check(c.And(c.eq(res.time_signatures[0].numerator, tss[0][1]),
                  c.eq(res.time_signatures[0].denominator, tss[0][2]),
                  c.eq(res.time_signatures[0].time, 0)),
            'the single time signature at time 0')
    _accepted(c, res, ns, ev, tt, 4, 120.0, True, False)
    c.cover('accepted')
  if K_ >= 2:
    c.cover('later time signature stored first', tss[0][0] > tss[1][0])


# denominators beyond the symbolic range 0..130: large powers of two (valid),
# their neighbours, other large values and negative values (int32 field)
_BIG_DENOMINATORS = [256, 512, 1024, 2**20, 2**30, 255, 257, 384, 1000, 1023,
                     1025, 2**30 + 2**29, 2**31 - 1, -1, -2, -4, -2**31]


def h2_bad_timesig(c):
  """BadTimeSignatureError iff numerator 0 or denominator not a power of 2."""
  pb, sl = c.pb, c.mod('sequences_lib')
  ns = pb.NoteSequence()
  ev = _reject_events(c, ns)
  tt = c.real('tt', 0)
  ns.total_time = tt
  nu = c.int('nu', 0, 12)
  if c.params.get('de') == 'big':
    de = c.choice('de', _BIG_DENOMINATORS)
    pow2 = de > 0 and bin(de).count('1') == 1
  else:
    de = c.int('de', 0, 130)
    pow2 = c.Or([c.eq(de, 2**k) for k in range(0, 8)])
  ns.time_signatures.add(time=0, numerator=nu, denominator=de)
  res, err = _reject_common(c, sl, ns, 4)
  bad = c.Or(c.eq(nu, 0), c.Not(pow2))
  if err is not None:
    c.check(isinstance(err, sl.BadTimeSignatureError),
            'only BadTimeSignatureError')
    c.check(bad, 'raised for a good time signature')
    c.cover('rejected')
  else:
    c.check(c.Not(bad), 'bad time signature accepted')
    _accepted(c, res, ns, ev, tt, 4, 120.0, True, False)
    c.cover('accepted')


def h2_combined(c):
  """Several documented rejections in one sequence that also has events: two
  tempos, two time signatures (numerator 0 and denominator 3 possible, also at
  a time > 0 and repeated), a note and a control change whose time may be
  negative.  Raises iff at least one documented cause is present, and the
  error raised names a cause that is present (which one wins is not
  documented)."""
  pb, sl = c.pb, c.mod('sequences_lib')
  spq = c.params.get('spq', 4)
  ns = pb.NoteSequence()
  notes, _, _ = _events(c, ns, 1, 0, 0)
  t = c.real('cc_t', -10, 10)
  ns.control_changes.add(time=t, control_number=64, control_value=127)
  tt = c.real('tt', 0)
  ns.total_time = tt
  tempos, tss = [], []
  for i in range(2):
    tp = (c.real('tp%d_t' % i, 0), c.real('tp%d_q' % i, 10, 480))
    ns.tempos.add(time=tp[0], qpm=tp[1])
    tempos.append(tp)
  for i in range(2):
    ts = (c.real('ts%d_t' % i, 0), c.int('ts%d_n' % i, 0, 12),
          c.choice('ts%d_d' % i, [3, 4, 8]))
    ns.time_signatures.add(time=ts[0], numerator=ts[1], denominator=ts[2])
    tss.append(ts)
  res, err = _reject_common(c, sl, ns, spq)
  tp_change = c.Or(c.Not(c.eq(tempos[0][1], tempos[1][1])),
                   c.And(c.Min([tempos[0][0], tempos[1][0]]) > 0,
                         c.Not(c.eq(tempos[0][1], 120.0))))
  ts_same = c.And(c.eq(tss[0][1], tss[1][1]), tss[0][2] == tss[1][2])
  ts_change = c.Or(c.Not(ts_same),
                   c.And(c.Min([tss[0][0], tss[1][0]]) > 0,
                         c.Not(c.And(c.eq(tss[0][1], 4), tss[0][2] == 4))))
  ts_bad = c.Or([c.Or(c.eq(nu, 0), de == 3) for _, nu, de in tss])
  sps = spq * tempos[0][1] / 60.0
  if err is not None:
    c.check(isinstance(err, (sl.MultipleTempoError,
                             sl.MultipleTimeSignatureError,
                             sl.BadTimeSignatureError, sl.NegativeTimeError)),
            'only the documented errors')
    if isinstance(err, sl.MultipleTempoError):
      c.check(tp_change, 'MultipleTempoError without a tempo change')
    elif isinstance(err, sl.MultipleTimeSignatureError):
      c.check(ts_change,
              'MultipleTimeSignatureError without a time signature change')
    elif isinstance(err, sl.BadTimeSignatureError):
      c.check(ts_bad, 'BadTimeSignatureError without a bad time signature')
    else:
      c.check(t < 0, 'NegativeTimeError for a non-negative time')
    c.cover('rejected')
    c.cover('bad time signature repeated at a time > 0 (no change from it)',
            c.And(ts_same, tss[0][2] == 3, tss[0][0] > 0, tss[1][0] > 0))
    c.cover('tempo change and time signature change together',
            c.And(tp_change, ts_change))
  else:
    c.check(c.Not(tp_change), 'tempo change accepted instead of rejected')
    c.check(c.Not(ts_change),
            'time signature change accepted instead of rejected')
    c.check(c.Not(ts_bad), 'bad time signature accepted')
    c.check(c.Not(t * sps <= -2), 'time two or more steps before zero accepted')
    if t >= 0:
      exp = _expected(c, ns, notes, [t], [], tt, sps)
      exp.quantization_info.steps_per_quarter = spq
      exp.tempos[0].time = 0
      del exp.tempos[1:]
      exp.time_signatures[0].time = 0
      del exp.time_signatures[1:]
      c.check(c.msg_eq(res, exp),
              'accepted: result = input copy + steps + single tempo/meter at 0')
    c.cover('accepted')


def h2_negative(c):
  """NegativeTimeError for times >= 2 steps before zero; never for t >= 0.
  Job parameter rel=<steps_per_quarter>: through quantize_note_sequence at a
  symbolic tempo instead of quantize_note_sequence_absolute."""
  pb, sl = c.pb, c.mod('sequences_lib')
  rel = c.params.get('rel')
  which = c.params['which']
  ns = pb.NoteSequence()
  if rel:
    qpm = c.real('qpm', 10, 480)
    ns.tempos.add(qpm=qpm)
    sps = rel * qpm / 60.0
  else:
    sps = c.params['sps']
  t = c.real('t', -10, 10)
  notes, ccs, tas = [], [], []
  extra = c.params.get('extra')

  def harmless():
    # a harmless event of every kind, stored BEFORE and AFTER the offending
    # one, does not mask it
    ns.notes.add(start_time=1, end_time=2, pitch=61, velocity=1)
    notes.append({'start_time': 1, 'end_time': 2})
    ns.control_changes.add(time=1, control_number=7, control_value=0)
    ccs.append(1)
    ns.text_annotations.add(time=1, text='D', annotation_type=1)
    tas.append(1)

  if extra:
    harmless()
  if which == 'note_start':
    e = c.real('e')
    c.assume(e >= t)
    ns.notes.add(start_time=t, end_time=e, pitch=60, velocity=1)
    notes.append({'start_time': t, 'end_time': e})
  elif which == 'note_end':
    s = c.real('s')
    c.assume(s <= t)
    ns.notes.add(start_time=s, end_time=t, pitch=60, velocity=1)
    notes.append({'start_time': s, 'end_time': t})
    t = s  # the earliest time of the note decides
  elif which == 'cc':
    ns.control_changes.add(time=t, control_number=64, control_value=0)
    ccs.append(t)
  else:
    ns.text_annotations.add(time=t, text='C', annotation_type=1)
    tas.append(t)
  if extra:
    harmless()
  tt = c.real('tt', 0)
  ns.total_time = tt
  before = c.snapshot(ns)
  if rel:
    res, err = c.raises(sl.quantize_note_sequence, ns, rel)
  else:
    res, err = c.raises(sl.quantize_note_sequence_absolute, ns, sps)
  c.check(c.msg_eq(ns, before), 'input unchanged (also when raising)')
  if err is not None:
    c.check(isinstance(err, sl.NegativeTimeError), 'only NegativeTimeError')
    c.check(t < 0, 'NegativeTimeError for a non-negative time')
    c.cover('rejected')
  else:
    c.check(c.Not(t * sps <= -2), 'time two or more steps before zero accepted')
    if t * sps >= -0.5:
      # every time is at most half a step before zero: the nearest step (ties
      # up) is the documented value, step 0 for the slightly negative ones
      exp = _expected(c, ns, notes, ccs, tas, tt, sps)
      if rel:
        exp.quantization_info.steps_per_quarter = rel
        exp.time_signatures.add(numerator=4, denominator=4, time=0)
      else:
        exp.quantization_info.steps_per_second = sps
      c.check(c.msg_eq(res, exp),
              'accepted: result = input copy + nearest steps')
      c.cover('accepted with a time slightly before zero', t < 0)
    c.cover('accepted')


def h4_q2s(c):
  """quantize_to_step called directly with an explicit cutoff (third positional
  argument or keyword) and steps_per_second != 1: int(t*sps + (1 - cutoff)),
  the formula of the property's anchor; default = QUANTIZE_CUTOFF = 0.5."""
  sl = c.mod('sequences_lib')
  sps = c.choice('sps', [3, 100, 8.25])
  t = c.real('t', -10, 1000)
  k = c.real('cutoff', 0, 1)
  form = c.choice('form', ['positional', 'keyword'])
  if form == 'positional':
    got = sl.quantize_to_step(t, sps, k)
  else:
    got = sl.quantize_to_step(t, sps, quantize_cutoff=k)
  v = t * sps + (1 - k)
  want = c.If(v >= 0, c.Floor(v), c.Ceil(v))
  c.check(c.eq(got, want),
          'explicit quantize_cutoff: int(t*sps + (1 - cutoff))')
  d = sl.quantize_to_step(t, sps)
  v = t * sps + 0.5
  c.check(c.eq(d, c.If(v >= 0, c.Floor(v), c.Ceil(v))),
          'default cutoff: int(t*sps + 1/2)')
  c.cover('cutoff 0 rounds everything up',
          c.And(c.eq(k, 0), t > 0, c.eq(got, c.Floor(t * sps) + 1)))
  c.cover('cutoff 1 rounds everything down',
          c.And(c.eq(k, 1), t > 0, c.eq(got, c.Floor(t * sps))))
  c.cover('negative product', t * sps + (1 - k) <= -1)


def h4_sps(c):
  """steps_per_quarter_to_steps_per_second called directly, also with a
  Python int tempo: steps_per_quarter * qpm / 60 (true division)."""
  sl = c.mod('sequences_lib')
  spq = c.int('spq', 1, 96)
  if c.params['qpm'] == 'int':
    qpm = c.int('qpm', 10, 480)
  else:
    qpm = c.real('qpm', 10, 480)
  got = sl.steps_per_quarter_to_steps_per_second(spq, qpm)
  c.check(c.eq(got * 60, spq * qpm),
          'steps per second = steps_per_quarter * qpm / 60')
  c.cover('non-integer steps per second', c.And(c.eq(spq, 1), c.eq(qpm, 90)))


def h4_inplace(c):
  """_quantize_notes called directly ("in place") on a sequence that already
  carries quantization residue: every quantized field is overwritten with the
  nearest step, total_quantized_steps covers every note end afterwards,
  nothing else changes."""
  pb, sl = c.pb, c.mod('sequences_lib')
  sps = c.params['sps']
  ns = pb.NoteSequence()
  notes, ccs, tas = _events(c, ns, c.params['N'], 1, 1)
  tt = c.real('tt', 0)
  ns.total_time = tt
  _populate_other_fields(c, ns)
  t0 = c.int('tq0', 0, 100000)
  ns.total_quantized_steps = t0
  for i, m in enumerate(ns.notes):
    m.quantized_start_step = c.int('res_s%d' % i, 0, 100000)
    m.quantized_end_step = c.int('res_e%d' % i, 0, 100000)
  ns.control_changes[0].quantized_step = c.int('res_c', 0, 100000)
  ns.text_annotations[0].quantized_step = c.int('res_t', 0, 100000)
  ns.quantization_info.steps_per_second = sps
  before = c.snapshot(ns)
  ret = sl._quantize_notes(ns, sps)  # pylint: disable=protected-access
  c.check(ret is None, '_quantize_notes works in place (returns None)')
  exp = _expected(c, before, notes, ccs, tas, 0, sps)
  # what happens to a total that is already larger is not documented: only
  # "covers every note end" is checked, the value is taken from the result
  exp.total_quantized_steps = ns.total_quantized_steps
  c.check(c.msg_eq(ns, exp),
          'in place: stale quantized fields overwritten, nothing else changed')
  for m in ns.notes:
    c.check(ns.total_quantized_steps >= m.quantized_end_step,
            'total_quantized_steps covers every note end')
  c.cover('note end beyond the stale total',
          _step(c, notes[0]['end_time'], sps) > t0 + 1)


HARNESSES = {
    'h1_absolute': h1_absolute,
    'h1_relative': h1_relative,
    'h3_stretch': h3_stretch,
    'h2_tempos': h2_tempos,
    'h2_timesigs': h2_timesigs,
    'h2_bad_timesig': h2_bad_timesig,
    'h2_combined': h2_combined,
    'h2_negative': h2_negative,
    'h4_q2s': h4_q2s,
    'h4_sps': h4_sps,
    'h4_inplace': h4_inplace,
}

# ---------------------------------------------------------------------------
# E2 lemmas on the AST of quantize_to_step


def _lemmas(job):
  import z3  # pylint: disable=g-import-not-at-top
  from engine import fpk  # pylint: disable=g-import-not-at-top
  import time  # pylint: disable=g-import-not-at-top
  fnode, src = fpk.get_function('sequences_lib', 'quantize_to_step')
  tr = fpk.Translator(consts={'QUANTIZE_CUTOFF': _cutoff_const()})
  x = z3.FP('x', fpk.F64)
  y = z3.FP('y', fpk.F64)

  def q_of(var):
    # steps_per_second = 1 (int): the product t*1 is exact, so `var` is the
    # computed unquantized_steps
    return tr.function(fnode, {'unquantized_seconds': fpk.V(var, 'fp'),
                               'steps_per_second': fpk.iv(1)})

  qx, qy = q_of(x), q_of(y)
  obligations = []
  # --- translator validation on concrete inputs against the real function
  real = _real_quantize_to_step()
  bad = []
  pts = [0.0, 0.25, 0.5, 0.49999999999999994, 0.5000000000000001, 1.5, 2.5,
         1e6 + 0.5, 123456.49999, 2.0**40 - 0.5, -0.4, -0.5, -1.4, -1.5, -2.0,
         -3.7, 7.75, 3.999999999999999]
  wants = real(pts)
  for v, want in zip(pts, wants):
    got = fpk.eval_concrete(qx, [(x, v)])
    if got != want:
      bad.append((v, got, want))
  if bad:
    return {'status': 'error',
            'error': 'FP translator disagrees with quantize_to_step: %r' % bad}
  lo, hi = z3.FPVal(0.0, fpk.F64), z3.FPVal(2.0**40, fpk.F64)
  in_range = lambda v: z3.And(z3.fpGEQ(v, lo), z3.fpLEQ(v, hi))
  half = z3.FPVal(0.5, fpk.F64)
  qfx = z3.fpSignedToFP(fpk.RNE, qx.t, fpk.F64)
  known = set(job.get('known') or [])

  def run(name, text, assertions, expect='unsat', timeout=120, model=None):
    r = fpk.solve(assertions, timeout_s=timeout,
                  want_model=model or {'x': x, 'y': y})
    r.update({'lemma': name, 'statement': text, 'expect': expect,
              'discharged': r['result'] == expect})
    obligations.append(r)
    return r

  # L1 nearest: |q - x| <= 1/2 (the subtraction is exact in this range)
  run('L1', 'for every double x in [0,2^40]: |quantize_to_step(x,1) - x| <= 1/2',
      [in_range(x), z3.Not(z3.fpLEQ(z3.fpAbs(z3.fpSub(fpk.RNE, qfx, x)), half))])
  # L2 tie rule / nearest with floor: frac(x) >= 1/2 -> floor+1 ; < 1/2 -> floor
  fl = z3.fpToSBV(fpk.RTN, x, fpk.BV)
  frac = z3.fpSub(fpk.RNE, x, z3.fpSignedToFP(fpk.RNE, fl, fpk.F64))  # exact
  l2 = z3.And(z3.Implies(z3.fpGEQ(frac, half), qx.t == fl + 1),
              z3.Implies(z3.fpLT(frac, half), qx.t == fl))
  l2_assert = [in_range(x), z3.Not(l2)]
  pred_half = z3.FPVal(0.49999999999999994, fpk.F64)
  if 'F-C01-a' in known:
    l2_assert.append(z3.Not(z3.fpEQ(x, pred_half)))
  r2 = run('L2', 'for every double x in [0,2^40]: frac(x) >= 1/2 -> q = '
           'floor(x)+1 and frac(x) < 1/2 -> q = floor(x)' +
           (' (x = 0.49999999999999994 excluded: known finding F-C01-a)'
            if 'F-C01-a' in known else ''),
           l2_assert, model={'x': x})
  # L3 monotone in the computed product
  run('L3', 'for all doubles x <= y in [0,2^40]: q(x) <= q(y)',
      [in_range(x), in_range(y), z3.fpLEQ(x, y), z3.Not(qx.t <= qy.t)])
  # L4 negative cut-off
  neg2 = z3.FPVal(-2.0, fpk.F64)
  nlo = z3.FPVal(-2.0**40, fpk.F64)
  run('L4a', 'for every double x in [-2^40,-2]: q(x) < 0 (rejected)',
      [z3.fpGEQ(x, nlo), z3.fpLEQ(x, neg2), z3.Not(qx.t < 0)])
  run('L4b', 'for every double x in [0,2^40]: q(x) >= 0 (never rejected)',
      [in_range(x), z3.Not(qx.t >= 0)])
  # L6 explicit cutoff argument: the formula of the docstring for every cutoff
  # in [0,1] (0.0 and 1.0 included), and the default equals the constant
  c_ = z3.FP('c', fpk.F64)
  qc = tr.function(fnode, {'unquantized_seconds': fpk.V(x, 'fp'),
                           'steps_per_second': fpk.iv(1),
                           'quantize_cutoff': fpk.V(c_, 'fp')})
  one = z3.FPVal(1.0, fpk.F64)
  spec = z3.fpToSBV(fpk.RTZ, z3.fpAdd(fpk.RNE, x, z3.fpSub(fpk.RNE, one, c_)),
                    fpk.BV)
  c_rng = z3.And(z3.fpGEQ(c_, z3.FPVal(0.0, fpk.F64)), z3.fpLEQ(c_, one))
  cpts = [(0.3, 0.0), (2.0, 0.0), (2.2, 0.25), (2.75, 0.25), (2.2, 1.0),
          (3.0, 1.0), (0.0, 0.0), (7.5, 0.5)]
  wants_c = real([p_[0] for p_ in cpts], [p_[1] for p_ in cpts])
  for (xv, cv), want in zip(cpts, wants_c):
    got = fpk.eval_concrete(qc, [(x, xv), (c_, cv)])
    if got != want:
      return {'status': 'error', 'error': 'FP translator disagrees with '
              'quantize_to_step(%r, 1, %r): %r vs %r' % (xv, cv, got, want)}
  run('L6a', 'for every double x in [0,2^40] and cutoff c in [0,1]: '
      'quantize_to_step(x,1,c) = int(x + (1 - c))',
      [in_range(x), c_rng, qc.t != spec], model={'x': x, 'c': c_})
  run('L6b', 'for every double x in [0,2^40]: quantize_to_step(x,1) = '
      'quantize_to_step(x,1,QUANTIZE_CUTOFF)',
      [in_range(x), z3.fpEQ(c_, z3.FPVal(_cutoff_const(), fpk.F64)),
       qc.t != qx.t], model={'x': x, 'c': c_})
  # L-stretch (NRA over the reals, symbolic k, qpm, steps_per_quarter):
  # the argument of floor() is unchanged when times are multiplied by k and
  # the tempo divided by k.  Together with h1_relative (result = floor(t*sps
  # + 1/2) on every path) this gives stretch invariance for symbolic k.
  # Generated from the ASTs: the `*=` / `/=` updates of stretch_note_sequence,
  # steps_per_quarter_to_steps_per_second and the product inside
  # quantize_to_step, in exact real arithmetic.
  import ast  # pylint: disable=g-import-not-at-top
  t_, k_, q_, spq_ = z3.Reals('t k q spq')
  t0 = time.time()
  try:
    f_st, _ = fpk.get_function('sequences_lib', 'stretch_note_sequence')
    f_cv, _ = fpk.get_function('sequences_lib',
                               'steps_per_quarter_to_steps_per_second')
    sm = fpk.StdModel(exact=True, tag='ls')
    for v_ in (t_, k_, q_, spq_):
      sm.declare_nonneg(v_)
    factor = [a.arg for a in f_st.args.args][1]
    upd = {}
    for n_ in ast.walk(f_st):
      if isinstance(n_, ast.AugAssign) and isinstance(n_.target, ast.Attribute) \
          and ast.unparse(n_.value) == factor:
        upd.setdefault(n_.target.attr, type(n_.op))
    for fld in ('start_time', 'end_time', 'time', 'total_time', 'qpm'):
      if fld not in upd:
        raise fpk.UnsupportedConstruct('stretch_note_sequence does not update '
                                       '%s by the factor' % fld)
    if len(set(upd[f] for f in ('start_time', 'end_time', 'time',
                                'total_time'))) != 1:
      raise fpk.UnsupportedConstruct('time fields are not updated alike')
    V_ = fpk.V
    t2 = sm.binop(upd['start_time'](), V_(t_, 'fp'), V_(k_, 'fp'), f_st)
    q2 = sm.binop(upd['qpm'](), V_(q_, 'fp'), V_(k_, 'fp'), f_st)
    cp = [a.arg for a in f_cv.args.args]
    sps1 = sm.function(f_cv, {cp[0]: V_(spq_, 'fp'), cp[1]: V_(q_, 'fp')})
    sps2 = sm.function(f_cv, {cp[0]: V_(spq_, 'fp'), cp[1]: q2})
    prod = [n_ for n_ in ast.walk(fnode) if isinstance(n_, ast.Assign) and
            getattr(n_.targets[0], 'id', '') == 'unquantized_steps']
    qp = [a.arg for a in fnode.args.args]
    if len(prod) != 1:
      raise fpk.UnsupportedConstruct('unquantized_steps not assigned once')
    arg1 = sm.expr(prod[0].value, {qp[0]: V_(t_, 'fp'), qp[1]: sps1})
    arg2 = sm.expr(prod[0].value, {qp[0]: t2, qp[1]: sps2})
    dom = [k_ > 0, q_ >= 10, q_ <= 480, spq_ >= 1, spq_ <= 96, t_ >= 0]
    sN = z3.Solver()
    sN.set('timeout', 60000)
    sN.add(dom + list(sm.side))
    sN.add(sm.real(arg1) != sm.real(arg2))
    rN = str(sN.check())
    sN2 = z3.Solver()
    sN2.add(dom + list(sm.side))
    rN2 = str(sN2.check())
  except fpk.UnsupportedConstruct as e:
    rN, rN2 = 'unknown (cannot regenerate from the source: %s)' % e, 'unknown'
  obligations.append({'lemma': 'L-stretch', 'statement':
                      'forall t>=0,k>0,q in [10,480],spq in [1,96] (reals): the '
                      'product quantize_to_step floors is unchanged when every '
                      'time is updated as stretch_note_sequence updates it and '
                      'the tempo as it updates tempos (terms from the ASTs)',
                      'expect': 'unsat',
                      'result': rN, 'discharged': rN == 'unsat',
                      'seconds': round(time.time() - t0, 3),
                      'backend': 'z3 nlsat'})
  obligations.append({'lemma': 'L-stretch-twin', 'statement':
                      'assumptions of L-stretch satisfiable', 'expect': 'sat',
                      'result': rN2, 'discharged': rN2 == 'sat', 'seconds': 0,
                      'backend': 'z3 nlsat'})
  # vacuity twin: the range assumption alone is satisfiable
  run('L0-twin', 'reachability twin: the assumptions of L1-L4 are satisfiable',
      [in_range(x), in_range(y), z3.fpLEQ(x, y)], expect='sat')
  out = {'obligations': obligations, 'status': 'ok',
         'solver_queries': len(obligations),
         'solver_seconds': round(sum(o['seconds'] for o in obligations), 3)}
  viol = []
  for o in obligations:
    if not o['discharged']:
      if o['result'] == 'sat' and o['expect'] == 'unsat' and 'model' in o:
        vals = {'lemma': o['lemma'], 'x': o['model']['x_hex']}
        if 'y_hex' in o['model']:
          vals['y'] = o['model']['y_hex']
        if 'c_hex' in o['model']:
          vals['c'] = o['model']['c_hex']
        viol.append({'label': '%s in binary64' % o['lemma'], 'values': vals,
                     'source': 'solver'})
      else:
        out['status'] = 'inconclusive'
        out['error'] = 'lemma %s: %s' % (o['lemma'], o['result'])
  if viol:
    out['violations'] = viol
    out['status'] = 'violation'
  return out


def _cutoff_const():
  import ast  # pylint: disable=g-import-not-at-top
  import os  # pylint: disable=g-import-not-at-top
  from engine import fpk  # pylint: disable=g-import-not-at-top
  with open(os.path.join(fpk.REPO, 'note_seq', 'sequences_lib.py')) as f:
    tree = ast.parse(f.read())
  for n in tree.body:
    if isinstance(n, ast.Assign) and getattr(n.targets[0], 'id',
                                             None) == 'QUANTIZE_CUTOFF':
      return ast.literal_eval(n.value)
  raise ValueError('QUANTIZE_CUTOFF not found')


def _real_quantize_to_step():
  """Evaluates the real quantize_to_step in a clean subprocess (memoised)."""
  import json  # pylint: disable=g-import-not-at-top
  import os  # pylint: disable=g-import-not-at-top
  import subprocess  # pylint: disable=g-import-not-at-top
  import sys  # pylint: disable=g-import-not-at-top
  verif = os.path.dirname(os.path.dirname(os.path.abspath(__file__)))

  def call_many(vs, cutoffs=None):
    hs = [float(v).hex() for v in vs]
    if cutoffs is None:
      call = '[f(float.fromhex(h), 1) for h in %r]' % (hs,)
    else:
      call = ('[f(float.fromhex(h), 1, quantize_cutoff=k) for h, k in '
              'zip(%r, %r)]' % (hs, [float(k) for k in cutoffs]))
    code = ('import sys, json\nsys.path.insert(0, %r)\n'
            'from engine import loader\nenv = loader.RealEnv()\n'
            'f = env.mod("sequences_lib").quantize_to_step\n'
            'print(json.dumps(%s))' % (verif, call))
    p = subprocess.run([sys.executable, '-c', code], stdout=subprocess.PIPE,
                       stderr=subprocess.PIPE, text=True)
    return json.loads(p.stdout.strip().splitlines()[-1])

  return call_many


def _lemma_sps(job):
  """L5: steps_per_quarter_to_steps_per_second is exact whenever the true value
  spq*qpm/60 is an integer (integer tempi): the derived steps per second then
  puts no event on the wrong side of a half-step boundary."""
  import z3  # pylint: disable=g-import-not-at-top
  from engine import fpk  # pylint: disable=g-import-not-at-top
  spq = job['params']['spq']
  fnode, _ = fpk.get_function('sequences_lib',
                              'steps_per_quarter_to_steps_per_second')
  q = z3.BitVec('q', 64)
  tr = fpk.Translator()
  qf = z3.fpSignedToFP(fpk.RNE, q, fpk.F64)
  res = tr.function(fnode, {'steps_per_quarter': fpk.iv(spq),
                            'qpm': fpk.V(qf, 'fp')})
  # translator validation on concrete tempi against the real function
  real = _real_sps()
  pts = [10, 60, 97, 120, 123, 245, 480]
  wants = real(spq, pts)
  for v, want in zip(pts, wants):
    got = fpk.eval_concrete(res, [(q, v)])
    if got != want:
      return {'status': 'error', 'error': 'FP translator disagrees with '
              'steps_per_quarter_to_steps_per_second(%d, %d): %r vs %r' %
              (spq, v, got, want)}
  prod = spq * q
  exact = z3.fpSignedToFP(fpk.RNE, z3.UDiv(prod, z3.BitVecVal(60, 64)), fpk.F64)
  rng = [q >= 10, q <= 480, z3.URem(prod, z3.BitVecVal(60, 64)) == 0]
  r = fpk.solve(rng + [z3.Not(z3.fpEQ(res.t, exact))], timeout_s=200,
                want_model={'q': q})
  t = fpk.solve(rng, timeout_s=20)
  obligations = [{
      'lemma': 'L5[spq=%d]' % spq,
      'statement': 'for every integer tempo q in [10,480] with 60 | spq*q: '
                   'steps_per_quarter_to_steps_per_second(spq, q) == spq*q/60 '
                   'exactly (binary64)',
      'expect': 'unsat', 'result': r['result'], 'seconds': r['seconds'],
      'backend': r['backend'], 'discharged': r['result'] == 'unsat'
  }, {
      'lemma': 'L5-twin[spq=%d]' % spq, 'statement': 'assumptions satisfiable',
      'expect': 'sat', 'result': t['result'], 'seconds': t['seconds'],
      'backend': t['backend'], 'discharged': t['result'] == 'sat'
  }]
  out = {'obligations': obligations, 'status': 'ok', 'solver_queries': 2,
         'solver_seconds': round(r['seconds'] + t['seconds'], 3)}
  if r['result'] == 'sat':
    out['status'] = 'violation'
    out['violations'] = [{
        'label': 'L5 steps per second not exact for an integer tempo',
        'values': {'lemma': 'L5', 'spq': spq, 'q': r['model']['q'],
                   'x': float(0).hex()}, 'source': 'solver'}]
  elif r['result'] != 'unsat' or t['result'] != 'sat':
    out['status'] = 'inconclusive'
    out['error'] = 'L5[spq=%d]: %s / twin %s' % (spq, r['result'], t['result'])
  return out


def _real_sps():
  import json  # pylint: disable=g-import-not-at-top
  import os  # pylint: disable=g-import-not-at-top
  import subprocess  # pylint: disable=g-import-not-at-top
  import sys  # pylint: disable=g-import-not-at-top
  verif = os.path.dirname(os.path.dirname(os.path.abspath(__file__)))

  def call(spq, qs):
    code = ('import sys, json\nsys.path.insert(0, %r)\n'
            'from engine import loader\nenv = loader.RealEnv()\n'
            'f = env.mod("sequences_lib").steps_per_quarter_to_steps_per_second\n'
            'print(json.dumps([float(f(%d, float(q))).hex() for q in %r]))' %
            (verif, spq, list(qs)))
    p = subprocess.run([sys.executable, '-c', code], stdout=subprocess.PIPE,
                       stderr=subprocess.PIPE, text=True)
    return [float.fromhex(h) for h in
            json.loads(p.stdout.strip().splitlines()[-1])]

  return call


def _real_calls():
  """Evaluates quantize_to_step(x, sps[, cutoff]) calls (cutoff positional or
  by keyword) on the real function in a clean subprocess."""
  import json  # pylint: disable=g-import-not-at-top
  import os  # pylint: disable=g-import-not-at-top
  import subprocess  # pylint: disable=g-import-not-at-top
  import sys  # pylint: disable=g-import-not-at-top
  verif = os.path.dirname(os.path.dirname(os.path.abspath(__file__)))

  def call(specs):
    """specs: list of (x, sps, cutoff-or-None, 'positional'|'keyword')."""
    enc = [[float(x).hex(), (sp if isinstance(sp, int) else float(sp).hex()),
            None if k is None else float(k).hex(), form]
           for x, sp, k, form in specs]
    code = ('import sys, json\nsys.path.insert(0, %r)\n'
            'from engine import loader\nenv = loader.RealEnv()\n'
            'f = env.mod("sequences_lib").quantize_to_step\n'
            'def one(xh, sp, kh, form):\n'
            '  x = float.fromhex(xh)\n'
            '  sp = float.fromhex(sp) if isinstance(sp, str) else sp\n'
            '  if kh is None:\n'
            '    return f(x, sp)\n'
            '  k = float.fromhex(kh)\n'
            '  return f(x, sp, k) if form == "positional" else '
            'f(x, sp, quantize_cutoff=k)\n'
            'print(json.dumps([one(*a) for a in json.loads(%r)]))' %
            (verif, json.dumps(enc)))
    p = subprocess.run([sys.executable, '-c', code], stdout=subprocess.PIPE,
                       stderr=subprocess.PIPE, text=True)
    return json.loads(p.stdout.strip().splitlines()[-1])

  return call


def _lemmas_kw(job):
  """E2 lemmas for what the other lemma jobs fix: steps_per_second != 1 (a
  double, as quantize_note_sequence passes it, or an int), an explicit
  quantize_cutoff (also outside [0,1], also for negative products), and
  non-integer / int tempi in steps_per_quarter_to_steps_per_second."""
  import z3  # pylint: disable=g-import-not-at-top
  from engine import fpk  # pylint: disable=g-import-not-at-top
  import time  # pylint: disable=g-import-not-at-top
  del job
  fnode, _ = fpk.get_function('sequences_lib', 'quantize_to_step')
  k0 = _cutoff_const()
  tr = fpk.Translator(consts={'QUANTIZE_CUTOFF': k0})
  x = z3.FP('x', fpk.F64)
  s_ = z3.FP('s', fpk.F64)
  c_ = z3.FP('c', fpk.F64)
  si = z3.BitVec('si', 64)
  V_ = fpk.V
  P = [a.arg for a in fnode.args.args]
  if len(P) < 3:
    return {'status': 'error', 'error': 'quantize_to_step has %d parameters' %
            len(P)}
  q_fc = tr.function(fnode, {P[0]: V_(x, 'fp'), P[1]: V_(s_, 'fp'),
                             P[2]: V_(c_, 'fp')})
  q_fd = tr.function(fnode, {P[0]: V_(x, 'fp'), P[1]: V_(s_, 'fp')})
  q_ic = tr.function(fnode, {P[0]: V_(x, 'fp'), P[1]: V_(si, 'int'),
                             P[2]: V_(c_, 'fp')})
  obligations, viol = [], []
  # --- translator validation against the real function; the third argument
  # is passed positionally and by keyword
  pts = []
  for form in ('positional', 'keyword'):
    pts += [(0.3, 3, 0.0, form), (2.0, 100, 0.0, form), (0.27, 8.25, 0.25, form),
            (1.1, 8.25, 1.0, form), (-0.1, 3, 0.5, form), (-0.7, 3, 0.0, form),
            (-0.7, 3, 1.0, form), (-2.6, 8.25, 0.75, form),
            (5.55, 100, 1.5, form), (5.55, 100, -0.5, form),
            (0.1, 1000, 0.3, form), (12.345, 31, 0.5, form)]
  wants = _real_calls()(pts)
  for (xv, sv, kv, form), want in zip(pts, wants):
    if isinstance(sv, int):
      got = fpk.eval_concrete(q_ic, [(x, xv), (si, sv), (c_, kv)])
    else:
      got = fpk.eval_concrete(q_fc, [(x, xv), (s_, sv), (c_, kv)])
    if got != want:
      viol.append({'label': 'L7a explicit quantize_cutoff follows int(t*sps + '
                            '(1 - cutoff))',
                   'values': {'lemma': 'L7a', 'x': float(xv).hex(),
                              's': float(sv).hex(), 'c': float(kv).hex(),
                              'form': form}, 'source': 'solver'})
  one = z3.FPVal(1.0, fpk.F64)

  def rng(v, lo, hi):
    return z3.And(z3.fpGEQ(v, z3.FPVal(lo, fpk.F64)),
                  z3.fpLEQ(v, z3.FPVal(hi, fpk.F64)))

  dom = [rng(x, -2.0**30, 2.0**30), rng(s_, 1.0, 1000.0), rng(c_, -4.0, 4.0)]

  def run(name, text, assertions, expect='unsat', timeout=100, model=None):
    r = fpk.solve(assertions, timeout_s=timeout, want_model=model)
    r.update({'lemma': name, 'statement': text, 'expect': expect,
              'discharged': r['result'] == expect})
    obligations.append(r)
    return r

  spec_f = z3.fpToSBV(fpk.RTZ, z3.fpAdd(fpk.RNE, z3.fpMul(fpk.RNE, x, s_),
                                        z3.fpSub(fpk.RNE, one, c_)), fpk.BV)
  run('L7a', 'for all doubles t in [-2^30,2^30], steps_per_second in [1,1000] '
      '(any double, not only integers) and cutoff in [-4,4]: '
      'quantize_to_step(t,sps,cutoff) = int(t*sps + (1 - cutoff)) in binary64 '
      '(truncation toward zero, also for negative products)',
      dom + [q_fc.t != spec_f], model={'x': x, 's': s_, 'c': c_})
  spec_d = z3.fpToSBV(fpk.RTZ, z3.fpAdd(
      fpk.RNE, z3.fpMul(fpk.RNE, x, s_),
      z3.fpSub(fpk.RNE, one, z3.FPVal(0.5, fpk.F64))), fpk.BV)
  run('L7b', 'for all doubles t, steps_per_second as in L7a: with the default '
      'cutoff quantize_to_step(t,sps) = int(t*sps + (1 - 0.5)) in binary64',
      dom[:2] + [q_fd.t != spec_d], model={'x': x, 's': s_})
  spec_i = z3.fpToSBV(fpk.RTZ, z3.fpAdd(fpk.RNE, z3.fpMul(
      fpk.RNE, x, z3.fpSignedToFP(fpk.RNE, si, fpk.F64)),
                                        z3.fpSub(fpk.RNE, one, c_)), fpk.BV)
  run('L7c', 'the same with an int steps_per_second in 1..1000',
      [dom[0], dom[2], si >= 1, si <= 1000, q_ic.t != spec_i],
      model={'x': x, 'si': si, 'c': c_})
  run('L7-twin', 'assumptions of L7a-L7c satisfiable', dom + [si >= 1,
                                                               si <= 1000],
      expect='sat')
  # --- L5r: steps_per_quarter_to_steps_per_second in the standard model of
  # binary64 (every operation exact*(1+d), |d| <= 2^-53) for EVERY real tempo
  # (non-integer too) and for int tempi: within 2^-51 (relative) of spq*qpm/60
  f_cv, _ = fpk.get_function('sequences_lib',
                             'steps_per_quarter_to_steps_per_second')
  cp = [a.arg for a in f_cv.args.args]
  for kind in ('real', 'int'):
    t0 = time.time()
    spq_ = z3.Int('spq')
    q_ = z3.Real('q') if kind == 'real' else z3.Int('q')
    try:
      sm = fpk.StdModel(tag='l5' + kind[0])
      sm.declare_nonneg(spq_)
      sm.declare_nonneg(q_)
      res = sm.function(f_cv, {cp[0]: V_(spq_, 'int'),
                               cp[1]: V_(q_, 'fp' if kind == 'real' else 'int')})
      val = sm.real(res)
      qr = q_ if kind == 'real' else z3.ToReal(q_)
      exact = z3.ToReal(spq_) * qr / 60
      eps = z3.Q(1, 2**51)
      sv = z3.Solver()
      sv.set('timeout', 60000)
      sv.add([spq_ >= 1, spq_ <= 96, q_ >= 10, q_ <= 480] + list(sm.side))
      sv.add(z3.Or(val > exact * (1 + eps), val < exact * (1 - eps)))
      rr = str(sv.check())
      mdl = None
      if rr == 'sat':
        m = sv.model()
        qv = m.eval(q_, model_completion=True)
        qf = (float(qv.as_long()) if kind == 'int' else
              qv.numerator_as_long() / qv.denominator_as_long())
        mdl = {'spq': m.eval(spq_, model_completion=True).as_long(), 'q': qf}
    except fpk.UnsupportedConstruct as e:
      rr, mdl = 'unknown (cannot translate: %s)' % e, None
    obligations.append({
        'lemma': 'L5r[%s]' % kind, 'statement':
            'for all steps_per_quarter in 1..96 and every %s tempo q in '
            '[10,480]: steps_per_quarter_to_steps_per_second(spq, q) is '
            'within 2^-51 (relative) of spq*q/60 in the standard model of '
            'binary64' % kind,
        'expect': 'unsat', 'result': rr, 'discharged': rr == 'unsat',
        'seconds': round(time.time() - t0, 3), 'backend': 'z3 nlsat'})
    if mdl is not None:
      viol.append({'label': 'L5r steps per second = spq*qpm/60 up to rounding',
                   'values': {'lemma': 'L5r', 'spq': mdl['spq'],
                              'q': float(mdl['q']).hex(), 'kind': kind},
                   'source': 'solver'})
  out = {'obligations': obligations, 'status': 'ok',
         'solver_queries': len(obligations),
         'solver_seconds': round(sum(o['seconds'] for o in obligations), 3)}
  for o in obligations:
    if not o['discharged']:
      if o['result'] == 'sat' and o['expect'] == 'unsat':
        if 'model' in o:
          mv = o['model']
          sv_ = mv['s_hex'] if 's_hex' in mv else float(mv['si']).hex()
          mv.setdefault('c_hex', float(0.5).hex())
          viol.append({
              'label': ('L7b default cutoff is QUANTIZE_CUTOFF'
                        if o['lemma'] == 'L7b' else
                        'L7a explicit quantize_cutoff follows int(t*sps + '
                        '(1 - cutoff))'),
              'values': {'lemma': 'L7b' if o['lemma'] == 'L7b' else 'L7a',
                         'x': mv['x_hex'], 's': sv_, 'c': mv['c_hex'],
                         'int_sps': o['lemma'] == 'L7c', 'form': 'positional'},
              'source': 'solver'})
      else:
        out['status'] = 'inconclusive'
        out['error'] = 'lemma %s: %s' % (o['lemma'], o['result'])
  if viol:
    out['violations'] = viol
    out['status'] = 'violation'
  return out


def h_lemma_witness(c):
  """Concrete replay of a lemma counterexample on the real function, with the
  oracle evaluated in exact rational arithmetic."""
  import math  # pylint: disable=g-import-not-at-top
  from fractions import Fraction  # pylint: disable=g-import-not-at-top
  sl = c.mod('sequences_lib')
  lemma = c.values.get('lemma', 'L2')
  if lemma == 'L5':
    spq, q = int(c.values['spq']), int(c.values['q'])
    got = sl.steps_per_quarter_to_steps_per_second(spq, float(q))
    c.check(Fraction(got) == Fraction(spq * q, 60),
            'L5 steps per second not exact for an integer tempo')
    return
  if lemma == 'L5r':
    spq = int(c.values['spq'])
    q = float.fromhex(c.values['q'])
    if c.values.get('kind') == 'int':
      q = int(q)
    got = sl.steps_per_quarter_to_steps_per_second(spq, q)
    want = Fraction(spq) * Fraction(q) / 60
    c.check(abs(Fraction(got) - want) <= want / 2**51,
            'L5r steps per second = spq*qpm/60 up to rounding')
    return
  x = float.fromhex(c.values['x'])
  if lemma in ('L7a', 'L7b'):
    sp = float.fromhex(c.values['s'])
    if c.values.get('int_sps'):
      sp = int(sp)
    k = float.fromhex(c.values['c'])
    if c.values.get('form') == 'keyword':
      got = sl.quantize_to_step(x, sp, quantize_cutoff=k)
    else:
      got = sl.quantize_to_step(x, sp, k)
    if lemma == 'L7a':
      # binary64 evaluation of the anchor's formula (Python floats are
      # binary64, int() truncates)
      c.check(got == int(x * sp + (1 - k)),
              'L7a explicit quantize_cutoff follows int(t*sps + (1 - cutoff))')
    else:
      c.check(sl.quantize_to_step(x, sp) == int(x * sp + (1 - 0.5)),
              'L7b default cutoff is QUANTIZE_CUTOFF')
    return
  if lemma in ('L6a', 'L6b'):
    k = float.fromhex(c.values['c'])
    got = sl.quantize_to_step(x, 1, quantize_cutoff=k)
    if lemma == 'L6a':
      c.check(got == int(x + (1 - k)),
              'L6a explicit quantize_cutoff follows int(t*sps + (1 - cutoff))')
    else:
      c.check(got == sl.quantize_to_step(x, 1),
              'L6b default cutoff is QUANTIZE_CUTOFF')
    return
  q = sl.quantize_to_step(x, 1)
  if lemma == 'L1':
    c.check(abs(Fraction(q) - Fraction(x)) <= Fraction(1, 2), 'L1')
  elif lemma == 'L2':
    fl = math.floor(x)
    want = fl + 1 if Fraction(x) - fl >= Fraction(1, 2) else fl
    c.check(q == want, 'L2 nearest-step/tie rule in binary64')
  elif lemma == 'L3':
    y = float.fromhex(c.values['y'])
    c.check(not (x <= y) or q <= sl.quantize_to_step(y, 1), 'L3')
  elif lemma == 'L4a':
    c.check(q < 0, 'L4a')
  elif lemma == 'L4b':
    c.check(q >= 0, 'L4b')


HARNESSES['lemmas'] = h_lemma_witness
HARNESSES['lemma_sps'] = h_lemma_witness
HARNESSES['lemmas_kw'] = h_lemma_witness
FUNCS = {'lemmas': _lemmas, 'lemma_sps': _lemma_sps, 'lemmas_kw': _lemmas_kw}


def jobs(tier):
  J = []

  def add(h, budget=120, required=True, kind='symex', **params):
    J.append({'harness': h, 'params': params, 'budget_s': budget,
              'required': required, 'kind': kind})

  deep = tier == 'thorough'
  add('lemmas', kind='func', budget=600)
  add('lemmas_kw', kind='func', budget=600)
  for spq in ((1, 2, 3, 4, 6, 8, 12, 24, 96, 30, 50, 60) if not deep else
              range(1, 97)):
    add('lemma_sps', kind='func', budget=400, spq=spq)
  for sps in (1, 3, 31, 100, 1000):
    add('h1_absolute', N=1, sps=sps)
  add('h1_absolute', N=2, sps=31)
  add('h1_absolute', N=2, sps=100)
  for spq in (1, 4, 24, 96):
    add('h1_relative', N=1, spq=spq, tempo='explicit')
  add('h1_relative', N=1, spq=4, tempo='absent')
  add('h1_relative', N=1, spq=4, tempo='late120')
  add('h1_relative', N=2, spq=4, tempo='explicit')
  add('h3_stretch', N=1, spq=4, k=[2, 1])
  add('h3_stretch', N=1, spq=4, k=[1, 3])
  add('h2_tempos', K=1)
  add('h2_tempos', K=2)
  add('h2_tempos', K=3)
  add('h2_timesigs', K=1)
  add('h2_timesigs', K=2)
  add('h2_timesigs', K=3)
  add('h2_bad_timesig')
  for which in ('note_start', 'note_end', 'cc', 'annotation'):
    add('h2_negative', sps=31, which=which)
  # --- audit round (kwargs / siblings / excluded inputs / uncompared outputs)
  # stale total_time (also 0 / smaller than the note ends), 0 or 2 control
  # changes / annotations, no notes
  add('h1_absolute', N=2, sps=3, total='free', ncc=0, nta=0)
  add('h1_absolute', N=1, sps=100, total='free', ncc=2, nta=2, pred=1)
  add('h1_absolute', N=0, sps=31, ncc=2, nta=1)
  add('h1_absolute', N=1, sps=31, meta='multi')
  add('h1_relative', N=2, spq=4, tempo='absent', total='free', ncc=0, nta=0)
  add('h1_relative', N=1, spq=24, tempo='explicit', total='free', ncc=2,
      nta=2, pred=1)
  add('h1_relative', N=0, spq=4, tempo='explicit', ncc=1, nta=2)
  for mode in ('notempo', 'late120_nometer', 'dup'):
    add('h1_relative', N=1, spq=4, tempo=mode)
  add('h3_stretch', N=1, spq=4, k=[3, 2], real=1, ev=1)
  add('h3_stretch', N=1, spq=4, k=[1, 2], real=1, ev=1)
  add('h2_tempos', K=2, ev=1)
  add('h2_timesigs', K=2, ev=1)
  add('h2_bad_timesig', de='big', ev=1)
  add('h2_combined')
  for which in ('note_start', 'cc', 'annotation'):
    add('h2_negative', rel=4, which=which)
  add('h2_negative', sps=100, which='note_end', extra=1)
  add('h2_negative', sps=3, which='cc', extra=1)
  add('h2_negative', sps=3, which='annotation', extra=1)
  add('h4_q2s')
  add('h4_sps', qpm='int')
  add('h4_sps', qpm='real')
  add('h4_inplace', N=1, sps=31)
  add('h4_inplace', N=2, sps=3)
  if deep:
    add('h1_absolute', budget=1800, N=1, sps='sym')
    add('h1_absolute', budget=1800, required=False, N=2, sps='sym')
    for sps in (1, 3, 1000):
      add('h1_absolute', budget=1800, N=2, sps=sps)
    add('h1_absolute', budget=2400, required=False, N=3, sps=100)
    for spq in (1, 2, 3, 4, 6, 8, 12, 24, 96):
      add('h1_relative', budget=1800, N=2, spq=spq, tempo='explicit')
    add('h1_relative', budget=2400, required=False, N=3, spq=4,
        tempo='explicit')
    add('h3_stretch', budget=1800, required=False, N=2, spq=24, k=[3, 2])
    for spq in (1, 3, 96):
      for k in ([1, 2], [5, 4], [7, 1]):
        add('h3_stretch', budget=900, N=1, spq=spq, k=k)
    for which in ('note_start', 'cc'):
      for sps in (1, 1000):
        add('h2_negative', sps=sps, which=which)
    # audit round, deeper variants
    for sps in (31, 1000):
      add('h1_absolute', budget=1800, N=2, sps=sps, total='free', ncc=2, nta=2)
    add('h1_absolute', budget=1800, N=2, sps=100, meta='multi', total='free')
    add('h1_relative', budget=1800, N=2, spq=24, tempo='explicit',
        total='free', ncc=2, nta=2)
    for mode in ('notempo', 'late120_nometer', 'dup'):
      add('h1_relative', budget=1800, N=2, spq=24, tempo=mode, total='free')
    add('h3_stretch', budget=900, N=2, spq=24, k=[5, 4], real=1, ev=1)
    add('h2_tempos', budget=900, K=3, ev=1)
    add('h2_timesigs', budget=900, K=3, ev=1)
    add('h2_combined', budget=900, spq=24)
    for rel in (1, 96):
      for which in ('note_start', 'note_end', 'cc'):
        add('h2_negative', rel=rel, which=which, extra=1)
    add('h4_inplace', budget=900, N=2, sps=1000)
  # FINDING-CANDIDATE (weak, left out of the jobs: whether an inverted note is
  # inside the quantifier is debatable): "keeps every note at least one step
  # long" fails for a note whose end_time is before its start_time, e.g.
  # notes=[start_time=2.0, end_time=0.0], total_time=2.0:
  # quantize_note_sequence_absolute(ns, 1) -> quantized_start_step=2,
  # quantized_end_step=0 (quantize_note_sequence(ns, 4): 16 / 0); the one-step
  # minimum is applied only when the two steps are EQUAL.  All snap harnesses
  # assume end_time >= start_time (K.add_notes).
  return J
