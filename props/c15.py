"""C15 -- a chord symbol computed from pitches denotes exactly those pitches
(degenerate for this technique, labelled)."""

META = {
    'level': 'model_checking',
    'level_text':
        'pitches_to_chord_symbol iterates Python sets, builds strings and is '
        'interpreted back through regular expressions, so every path '
        'concretises the pitch-class set: on this property symbolic execution '
        'DEGENERATES TO SOLVER-DRIVEN ENUMERATION of the pitch-class sets '
        '(fully concretised: yes for the naming clause). What stays symbolic '
        'is the octave layout: pitches are pc_i + 12*o_i with free octaves '
        'o_i in [0,9], so "the lowest supplied pitch is the bass" is decided '
        'for all layouts by the solver, and the domain of pitch-class sets is '
        'closed by the solver (unsat of "another set exists"), not by a loop '
        'in the harness.',
    'level_note':
        'Trusted: z3 (integers), the chord-symbol parser of the same module as '
        'the meaning of a name (the property is stated in terms of it).',
    'technique':
        'bounded symbolic execution of the real functions with z3; names are '
        'strings, so the pitch-class sets and symbol grids are enumerated '
        'through solver-closed choices (degenerate, labelled) while octave '
        'layouts stay symbolic',
    'functions': [('chord_symbols_lib', 'pitches_to_chord_symbol'),
                  ('chord_symbols_lib',
                   '_largest_chord_kind_from_relative_pitches'),
                  ('chord_symbols_lib', '_degrees_to_modifications'),
                  ('chord_symbols_lib', 'chord_symbol_pitches'),
                  ('chord_symbols_lib', 'chord_symbol_bass'),
                  ('chord_symbols_lib', 'chord_symbol_root'),
                  ('chord_symbols_lib', 'chord_symbol_quality'),
                  ('chord_symbols_lib', '_parse_chord_symbol'),
                  ('chord_symbols_lib', '_parse_modifications')],
    'assumptions': ['K distinct pitch classes per job, octaves 0..9',
                    'h_symbol: figures assembled as root spelling + kind from '
                    'the module table + <=M parenthesised (or bare) degree '
                    'modifications + optional /bass; every choice domain is '
                    'closed by the solver (degenerate enumeration, as above)'],
    'bounds': {
        'quick': 'all sets of 1..3 pitch classes, every bass / octave layout; '
                 'symbols: all 68 kinds x <=1 modification (6 types x degrees '
                 '1..13) x roots C/F/B x {no bass, /E, /Eb}; 4 kinds x all 35 '
                 'root and 35 bass spellings',
        'thorough': 'all sets of 1..6 pitch classes (2509 sets), every bass; '
                    'sets of 7..12 not required to finish; symbols with 2 '
                    'modifications (10 degrees) and bare modifications on all '
                    '35 root spellings',
    },
    'outside': ['sets larger than completed bounds (see jobs_not_completed)'],
}

_TRIADS = {'major': (0, 4, 7), 'minor': (0, 3, 7), 'augmented': (0, 4, 8),
           'diminished': (0, 3, 6)}


def h_name(c):
  cs = c.mod('chord_symbols_lib')
  Kn = c.params['K']
  pcs = [c.int('pc%d' % i, 0, 11) for i in range(Kn)]
  for a, b in zip(pcs, pcs[1:]):
    c.assume(a < b)  # a set: strictly increasing representatives
  if 'first' in c.params:
    c.assume(c.eq(pcs[0], c.params['first']))
  octs = [c.int('o%d' % i, 0, 9) for i in range(Kn)]
  pitches = [pc + 12 * o for pc, o in zip(pcs, octs)]
  if c.params.get('doubled'):
    # one pitch class sounds in two octaves (either may be the lowest pitch;
    # the copy is stored before or after the others)
    j = c.choice('dbl', list(range(Kn)))
    extra = pcs[j] + 12 * c.int('o_dbl', 0, 9)
    c.assume(c.Not(c.eq(extra, pitches[j])))
    if c.choice('dbl_first', [False, True]):
      pitches = [extra] + pitches
    else:
      pitches = pitches + [extra]
  res, err = c.raises(cs.pitches_to_chord_symbol, list(pitches))
  if err is not None:
    c.check(isinstance(err, cs.ChordSymbolError),
            'a set that cannot be named raises ChordSymbolError and nothing '
            'else')
    c.cover('unnameable set')
    return
  c.cover('named set')
  name = res
  want = sorted(c.concretize(p) for p in pcs)
  # lowest supplied pitch (octaves symbolic: decided by the solver)
  low = pitches[0]
  for p in pitches[1:]:
    low = c.If(p < low, p, low)
  low_pc = c.concretize(low % 12)
  root = cs.chord_symbol_root(name)
  bass = cs.chord_symbol_bass(name)
  got = sorted(set(p % 12 for p in cs.chord_symbol_pitches(name)) | {bass})
  c.check(0 <= root <= 11 and 0 <= bass <= 11, 'root and bass in 0..11')
  c.check(bass == low_pc, 'the lowest supplied pitch is the bass')
  c.check(got == want,
          'the name denotes exactly the supplied pitch classes')
  q = cs.chord_symbol_quality(name)
  names = {cs.CHORD_QUALITY_MAJOR: 'major', cs.CHORD_QUALITY_MINOR: 'minor',
           cs.CHORD_QUALITY_AUGMENTED: 'augmented',
           cs.CHORD_QUALITY_DIMINISHED: 'diminished'}
  if q in names:
    tri = set((root + d) % 12 for d in _TRIADS[names[q]])
    c.check(tri <= set(cs.chord_symbol_pitches(name)),
            'a triad quality implies the triad is among the pitches')


_MAJOR_SCALE = [0, 2, 4, 5, 7, 9, 11]


def _degree_pc(d):
  """Pitch class of a degree string of the kind table ('b3', '#11', 'bb7'):
  the major-scale degree, lowered / raised once per accidental sign."""
  n = int(d.lstrip('#b'))
  return (_MAJOR_SCALE[(n - 1) % 7] + d.count('#') - d.count('b')) % 12


def h_kind(c):
  """Every chord kind of the module's own table, on every root: the pitches
  its degree list denotes (read by the harness, not by the library) are named
  by pitches_to_chord_symbol with a name that denotes the same pitch classes
  again, in any octave layout and over any chord tone as bass."""
  cs = c.mod('chord_symbols_lib')
  kinds = cs._CHORD_KINDS
  lo, hi = c.params['kinds']
  abbrevs, degrees = c.choice('kind', kinds[lo:hi])
  root = c.int('root', 0, 11)
  rootc = c.concretize(root)
  pcs = sorted(set((rootc + _degree_pc(d)) % 12 for d in degrees))
  octs = [c.int('o%d' % i, 2, 6) for i in range(len(pcs))]
  pitches = [pc + 12 * o for pc, o in zip(pcs, octs)]
  res, err = c.raises(cs.pitches_to_chord_symbol, list(pitches))
  if err is not None:
    c.check(isinstance(err, cs.ChordSymbolError),
            'a set that cannot be named raises ChordSymbolError and nothing '
            'else')
    c.cover('kind not nameable in this layout')
    return
  low = pitches[0]
  for p_ in pitches[1:]:
    low = c.If(p_ < low, p_, low)
  low_pc = c.concretize(low % 12)
  bass = cs.chord_symbol_bass(res)
  got = sorted(set(p_ % 12 for p_ in cs.chord_symbol_pitches(res)) | {bass})
  c.check(bass == low_pc, 'the lowest supplied pitch is the bass')
  c.check(got == pcs, 'the name of a table kind denotes exactly its pitch '
                      'classes')
  # and the kind's own abbreviations denote the degrees of the table
  for ab in abbrevs:
    fig = 'C' + ab
    c.check(sorted(set(cs.chord_symbol_pitches(fig))) ==
            sorted(set(_degree_pc(d) for d in degrees)),
            'every abbreviation of a kind denotes the degrees the table lists')
  c.cover('named')


_STEP_PC = {'C': 0, 'D': 2, 'E': 4, 'F': 5, 'G': 7, 'A': 9, 'B': 11}


def _spell(c, name, steps, alters):
  step = c.choice(name + '_step', steps)
  alter = c.choice(name + '_alter', alters)
  return (step + ('#' * alter if alter > 0 else 'b' * -alter),
          (_STEP_PC[step] + alter) % 12)


def h_symbol(c):
  """Any parseable symbol: root / bass / quality / pitch classes mutually
  consistent.  The figure is assembled from choices (root spelling, kind from
  the module's own table, up to M scale-degree modifications, optional bass);
  the solver closes each choice domain."""
  cs = c.mod('chord_symbols_lib')
  kinds = sorted(cs._CHORD_KINDS_BY_ABBREV)
  lo, hi = c.params['kinds']
  mods = sorted(cs._DEGREE_MODIFICATIONS)
  root_str, root_pc = _spell(c, 'root', c.params['root_steps'],
                             c.params['root_alters'])
  kind = c.choice('kind', kinds[lo:hi])
  fig = root_str + kind
  M = c.params['M']
  paren = c.params.get('paren', True)
  for j in range(M):
    present = c.choice('mod%d_present' % j, [False, True])
    if not present:
      break
    m = c.choice('mod%d_type' % j, c.params.get('mod_types') or mods)
    d = c.choice('mod%d_degree' % j, c.params['degrees'])
    fig += ('(%s%d)' if paren else '%s%d') % (m, d)
  bass_pc = root_pc
  if c.choice('has_bass', [False, True]):
    bass_str, bass_pc = _spell(c, 'bass', c.params['bass_steps'],
                               c.params['bass_alters'])
    fig += '/' + bass_str
  out = {}
  for fn in ('chord_symbol_root', 'chord_symbol_bass', 'chord_symbol_pitches',
             'chord_symbol_quality'):
    res, err = c.raises(getattr(cs, fn), fig)
    if err is not None:
      c.check(isinstance(err, cs.ChordSymbolError),
              'an uninterpretable symbol raises ChordSymbolError')
      c.cover('symbol rejected')
      out[fn] = None
    else:
      out[fn] = res
  root, bass = out['chord_symbol_root'], out['chord_symbol_bass']
  pitches, q = out['chord_symbol_pitches'], out['chord_symbol_quality']
  if root is not None:
    c.check(root == root_pc, 'root pitch class is the spelled root (0..11)')
  if bass is not None:
    c.check(bass == bass_pc,
            'bass pitch class is the spelled bass, or the root without one')
  c.check((pitches is None) == (q is None),
          'pitches and quality are defined for the same symbols')
  if pitches is None or root is None:
    return
  c.cover('symbol accepted')
  c.check(all(isinstance(p, int) and 0 <= p <= 11 for p in pitches),
          'pitch classes in 0..11')
  names = {cs.CHORD_QUALITY_MAJOR: 'major', cs.CHORD_QUALITY_MINOR: 'minor',
           cs.CHORD_QUALITY_AUGMENTED: 'augmented',
           cs.CHORD_QUALITY_DIMINISHED: 'diminished'}
  if q in names:
    tri = set((root + d) % 12 for d in _TRIADS[names[q]])
    c.check(tri <= set(pitches),
            'a triad quality implies the triad on the root is among the '
            'pitches')
    c.cover('triad quality with a modification', '(' in fig)
  else:
    c.check(q == cs.CHORD_QUALITY_OTHER, 'quality is one of the five values')


HARNESSES = {'h_name': h_name, 'h_symbol': h_symbol, 'h_kind': h_kind}


def jobs(tier):
  J = []

  def add(budget=600, required=True, harness='h_name', **params):
    J.append({'harness': harness, 'params': params, 'budget_s': budget,
              'required': required})

  deep = tier == 'thorough'
  add(K=1)
  add(K=2)
  for first in range(0, 10):
    add(K=3, first=first)
  # a pitch class doubled in another octave (bass = lowest PITCH, not the
  # lowest of one representative per class)
  add(K=1, doubled=True)
  add(K=2, doubled=True)
  for first in range(0, 10, 3):
    add(K=3, first=first, doubled=True)
  # every kind of the module's table on every root, all layouts
  for lo in range(0, 29, 3):  # 29 kinds in the table
    add(harness='h_kind', kinds=[lo, lo + 3], budget=900)
  # parseable symbols: every kind of the table x <=1 modification (every type,
  # degrees 1..13) x 3 root spellings x {no bass, 2 basses}
  for lo in range(0, 68, 9):
    add(harness='h_symbol', kinds=[lo, lo + 9], M=1,
        root_steps=['C', 'F', 'B'], root_alters=[0], degrees=list(range(1, 14)),
        bass_steps=['E'], bass_alters=[0, -1], budget=900)
  add(harness='h_symbol', kinds=[0, 4], M=0, root_steps=list('CDEFGAB'),
      root_alters=[-2, -1, 0, 1, 2], degrees=[], bass_steps=list('CDEFGAB'),
      bass_alters=[-2, -1, 0, 1, 2])
  if deep:
    # two modifications, all 35 root spellings
    for lo in range(0, 68, 2):
      add(harness='h_symbol', kinds=[lo, lo + 2], M=2,
          root_steps=['C', 'A'], root_alters=[0, 1],
          degrees=[1, 2, 3, 4, 5, 6, 7, 9, 11, 13], bass_steps=['G'],
          bass_alters=[0], budget=3000)
    for lo in range(0, 68, 4):
      add(harness='h_symbol', kinds=[lo, lo + 4], M=1, paren=False,
          root_steps=list('CDEFGAB'), root_alters=[-2, -1, 0, 1, 2],
          degrees=[1, 3, 5, 7, 9], bass_steps=['D'], bass_alters=[1],
          budget=3000)
    for k in (4, 5, 6):
      for first in range(0, 13 - k):
        add(K=k, first=first, budget=3000)
    for first in range(0, 10):
      add(K=3, first=first, doubled=True, budget=3000)
    add(K=4, first=0, doubled=True, budget=3000)
    for k in (7, 8):
      for first in range(0, 13 - k):
        add(K=k, first=first, budget=3000, required=False)
  return J
