"""C15 -- a chord symbol computed from pitches denotes exactly those pitches
(degenerate for this technique, labelled)."""

META = {
    'level': 'model_checking',
    'level_text':
        'pitches_to_chord_symbol iterates Python sets, builds strings and is '
        'interpreted back through regular expressions, so every path '
        'concretises the pitch-class set: on this property symbolic execution '
        'DEGENERATES TO SOLVER-DRIVEN ENUMERATION of the pitch-class sets '
        '(fully concretised: yes for the naming clause). What stays symbolic '
        'is the octave layout: pitches are pc_i + 12*o_i with free octaves '
        'o_i in [0,9], so "the lowest supplied pitch is the bass" is decided '
        'for all layouts by the solver, and the domain of pitch-class sets is '
        'closed by the solver (unsat of "another set exists"), not by a loop '
        'in the harness.',
    'level_note':
        'Trusted: z3 (integers), the chord-symbol parser of the same module as '
        'the meaning of a name (the property is stated in terms of it).',
    'technique':
        'bounded symbolic execution of the real functions with z3; names are '
        'strings, so the pitch-class sets and symbol grids are enumerated '
        'through solver-closed choices (degenerate, labelled) while octave '
        'layouts stay symbolic',
    'functions': [('chord_symbols_lib', 'pitches_to_chord_symbol'),
                  ('chord_symbols_lib',
                   '_largest_chord_kind_from_relative_pitches'),
                  ('chord_symbols_lib', '_degrees_to_modifications'),
                  ('chord_symbols_lib', 'chord_symbol_pitches'),
                  ('chord_symbols_lib', 'chord_symbol_bass'),
                  ('chord_symbols_lib', 'chord_symbol_root'),
                  ('chord_symbols_lib', 'chord_symbol_quality'),
                  ('chord_symbols_lib', '_parse_chord_symbol'),
                  ('chord_symbols_lib', '_parse_modifications'),
                  ('chord_symbols_lib', '_split_chord_symbol')],
    'assumptions': ['K distinct pitch classes per job, octaves 0..9 (0..10 up '
                    'to pitch 127 in the container jobs)',
                    'h_symbol: figures assembled as root spelling + kind from '
                    'the module table + <=M parenthesised (or bare) degree '
                    'modifications + optional /bass; every choice domain is '
                    'closed by the solver (degenerate enumeration, as above). '
                    'Parenthesised figures are also compared with the '
                    "harness's own model: degree list of the kind (module "
                    'table) + add / no / alter applied in order (add7 relative '
                    'to the dominant seventh) -> pitch classes, quality of the '
                    'triad on 1-3-5 (not asserted with degrees 8/10/12), and '
                    'rejection exactly for add-present / no-absent',
                    'h_kind extra: kind + one foreign pitch class, any member '
                    'lowest, the others in close position 1..4 octaves above',
                    'h_mods: _degrees_to_modifications between two table '
                    'kinds; a shared degree may only go natural -> +-1 '
                    '(altered -> other alteration is written relative and is '
                    'outside the claim)',
                    'h_reject: empty list/tuple/set gives NO_CHORD or '
                    'ChordSymbolError; 15 fixed non-symbols are refused by '
                    'all four interpreters with ChordSymbolError'],
    'bounds': {
        'quick': 'all sets of 1..3 pitch classes, every bass / octave layout '
                 '(must be named; list unchanged; second call same name); '
                 'K=2 and K=3(first=1) as reversed/rotated list, tuple, set; '
                 'K=2 with the identical pitch twice; the 12-class set (error '
                 'branch); 29 kinds x 12 roots (must be named, quality and '
                 'root of every abbreviation on every root); 10 kinds (triads, '
                 '7, maj7, m7, sus2, sus, sus7) + one foreign pitch class; '
                 'symbols: all 68 kinds x <=1 modification (6 types x degrees '
                 '1..13) x roots C/F/B x {no bass, /E, /Eb}; 12 kinds x <=2 '
                 'modifications (degrees 1,3,5,7,9) on Eb; 4 kinds x all 35 '
                 'root and 35 bass spellings; 29x29 kind pairs in h_mods',
        'thorough': 'all sets of 1..5 pitch classes (1585 sets), every bass; '
                    'sets of 6..8 not required to finish; symbols with 2 '
                    'modifications (10 degrees) and bare modifications on all '
                    '35 root spellings; every kind + one foreign pitch class',
    },
    'outside': ['sets larger than completed bounds (see jobs_not_completed)'],
}

_TRIADS = {'major': (0, 4, 7), 'minor': (0, 3, 7), 'augmented': (0, 4, 8),
           'diminished': (0, 3, 6)}


def h_name(c):
  cs = c.mod('chord_symbols_lib')
  Kn = c.params['K']
  pcs = [c.int('pc%d' % i, 0, 11) for i in range(Kn)]
  for a, b in zip(pcs, pcs[1:]):
    c.assume(a < b)  # a set: strictly increasing representatives
  if 'first' in c.params:
    c.assume(c.eq(pcs[0], c.params['first']))
  olo, ohi = c.params.get('octs', (0, 9))
  octs = [c.int('o%d' % i, olo, ohi) for i in range(Kn)]
  pitches = [pc + 12 * o for pc, o in zip(pcs, octs)]
  if ohi > 9:
    for p in pitches:
      c.assume(p <= 127)  # the top of the MIDI range, 120..127
  doubled = c.params.get('doubled')
  if doubled == 'same':
    # the identical pitch supplied twice
    j = c.choice('dbl', list(range(Kn)))
    if c.choice('dbl_first', [False, True]):
      pitches = [pitches[j]] + pitches
    else:
      pitches = pitches + [pitches[j]]
  elif doubled:
    # one pitch class sounds in two octaves (either may be the lowest pitch;
    # the copy is stored before or after the others)
    j = c.choice('dbl', list(range(Kn)))
    extra = pcs[j] + 12 * c.int('o_dbl', 0, 9)
    c.assume(c.Not(c.eq(extra, pitches[j])))
    if c.choice('dbl_first', [False, True]):
      pitches = [extra] + pitches
    else:
      pitches = pitches + [extra]
  # storage order and container of the argument (the library's own caller,
  # infer_dense_chords_for_sequence, passes a set)
  container = c.params.get('container', 'list')
  if container != 'list':
    container = c.choice('container', ['rev', 'rot', 'tuple', 'set'])
  if container == 'rev':
    arg = list(reversed(pitches))
  elif container == 'rot':
    arg = list(pitches[1:]) + [pitches[0]]
  elif container == 'tuple':
    arg = tuple(pitches)
  elif container == 'set':
    arg = set(pitches)  # concretises the pitches (narrow octave range)
  else:
    arg = list(pitches)
  supplied = list(arg) if isinstance(arg, list) else None
  res, err = c.raises(cs.pitches_to_chord_symbol, arg)
  if supplied is not None:
    c.check(len(arg) == len(supplied) and
            c.And([c.eq(a, b) for a, b in zip(arg, supplied)]),
            "the caller's list of pitches is left as supplied")
  if err is not None:
    c.check(isinstance(err, cs.ChordSymbolError),
            'a set that cannot be named raises ChordSymbolError and nothing '
            'else')
    # any one to three pitch classes have a chord symbol (root + two degrees
    # that can always be given distinct degree numbers), so the documented
    # reason to raise ("no known chord symbol corresponds") cannot apply
    c.check(Kn > 3, 'a set of at most three pitch classes is named')
    c.cover('unnameable set')
    return
  c.cover('named set')
  name = res
  c.check(isinstance(name, str), 'the name is a string')
  if not doubled:
    res2, err2 = c.raises(cs.pitches_to_chord_symbol, arg)
    c.check(err2 is None and res2 == name,
            'naming the same pitches again gives the same name')
  want = sorted(c.concretize(p) for p in pcs)
  # lowest supplied pitch (octaves symbolic: decided by the solver)
  low = pitches[0]
  for p in pitches[1:]:
    low = c.If(p < low, p, low)
  low_pc = c.concretize(low % 12)
  root = cs.chord_symbol_root(name)
  bass = cs.chord_symbol_bass(name)
  got = sorted(set(p % 12 for p in cs.chord_symbol_pitches(name)) | {bass})
  c.check(0 <= root <= 11 and 0 <= bass <= 11, 'root and bass in 0..11')
  c.check(bass == low_pc, 'the lowest supplied pitch is the bass')
  c.check(got == want,
          'the name denotes exactly the supplied pitch classes')
  q = cs.chord_symbol_quality(name)
  names = {cs.CHORD_QUALITY_MAJOR: 'major', cs.CHORD_QUALITY_MINOR: 'minor',
           cs.CHORD_QUALITY_AUGMENTED: 'augmented',
           cs.CHORD_QUALITY_DIMINISHED: 'diminished'}
  if q in names:
    tri = set((root + d) % 12 for d in _TRIADS[names[q]])
    c.check(tri <= set(cs.chord_symbol_pitches(name)),
            'a triad quality implies the triad is among the pitches')
  else:
    c.check(q == cs.CHORD_QUALITY_OTHER, 'quality is one of the five values')


_MAJOR_SCALE = [0, 2, 4, 5, 7, 9, 11]


def _degree_pc(d):
  """Pitch class of a degree string of the kind table ('b3', '#11', 'bb7'):
  the major-scale degree, lowered / raised once per accidental sign."""
  n = int(d.lstrip('#b'))
  return (_MAJOR_SCALE[(n - 1) % 7] + d.count('#') - d.count('b')) % 12


def _model_degrees(degree_strs):
  """{degree number: alteration in semitones} of a degree list of the table."""
  return dict((int(d.lstrip('#b')), d.count('#') - d.count('b'))
              for d in degree_strs)


def _model_modify(deg, mod, n):
  """The module's documented modification types, written out here: addition
  (of a degree not yet present; an added seventh is relative to the dominant
  seventh), subtraction (of a present degree), alteration (of a present degree
  by a semitone, or addition of the altered degree).  False = not applicable."""
  if mod in ('add', 'add#', 'addb'):
    if n in deg:
      return False
    deg[n] = {'add': 0, 'add#': 1, 'addb': -1}[mod] - (1 if n == 7 else 0)
  elif mod == 'no':
    if n not in deg:
      return False
    del deg[n]
  else:
    deg[n] = deg.get(n, 0) + {'#': 1, 'b': -1}[mod]
  return True


def _model_pcs(root_pc, deg):
  return sorted(set((root_pc + _MAJOR_SCALE[(n - 1) % 7] + a) % 12
                    for n, a in deg.items()))


def _model_quality(deg):
  """Name of the triad on degrees 1, 3, 5 (None: no such triad)."""
  if 1 not in deg or 3 not in deg or 5 not in deg:
    return None
  return {(0, 0, 0): 'major', (0, -1, 0): 'minor', (0, 0, 1): 'augmented',
          (0, -1, -1): 'diminished'}.get((deg[1], deg[3], deg[5]))


def _quality_value(cs, name):
  return {'major': cs.CHORD_QUALITY_MAJOR, 'minor': cs.CHORD_QUALITY_MINOR,
          'augmented': cs.CHORD_QUALITY_AUGMENTED,
          'diminished': cs.CHORD_QUALITY_DIMINISHED,
          None: cs.CHORD_QUALITY_OTHER}[name]


# one spelling per pitch class, for figures written by the harness
_ROOT_NAMES = ['C', 'Db', 'D', 'Eb', 'E', 'F', 'F#', 'G', 'Ab', 'A', 'Bb', 'B']


def h_kind(c):
  """Every chord kind of the module's own table, on every root: the pitches
  its degree list denotes (read by the harness, not by the library) are named
  by pitches_to_chord_symbol with a name that denotes the same pitch classes
  again, in any octave layout and over any chord tone as bass."""
  cs = c.mod('chord_symbols_lib')
  kinds = cs._CHORD_KINDS
  lo, hi = c.params['kinds']
  abbrevs, degrees = c.choice('kind', kinds[lo:hi])
  root = c.int('root', 0, 11)
  rootc = c.concretize(root)
  pcs = sorted(set((rootc + _degree_pc(d)) % 12 for d in degrees))
  extra = c.params.get('extra')
  if extra:
    # the kind plus ONE foreign pitch class: a slash chord over a bass that is
    # no chord tone, or an added / altered tension above the kind
    rel = c.choice('extra', [r for r in range(1, 12)
                             if (rootc + r) % 12 not in pcs])
    pcs = sorted(pcs + [(rootc + rel) % 12])
    # any member lowest (octave 2), the others in close position any number
    # of octaves (1..4) above it
    low_i = c.choice('low', list(range(len(pcs))))
    up = c.int('up', 3, 6)
    octs = [2 if i == low_i else up for i in range(len(pcs))]
  else:
    octs = [c.int('o%d' % i, 2, 6) for i in range(len(pcs))]
  pitches = [pc + 12 * o for pc, o in zip(pcs, octs)]
  res, err = c.raises(cs.pitches_to_chord_symbol, list(pitches))
  if err is not None:
    c.check(isinstance(err, cs.ChordSymbolError),
            'a set that cannot be named raises ChordSymbolError and nothing '
            'else')
    # the pitches of a kind of the table correspond to a known chord symbol
    c.check(bool(extra), 'the pitches of a table kind are named')
    c.cover('kind not nameable in this layout')
    return
  low = pitches[0]
  for p_ in pitches[1:]:
    low = c.If(p_ < low, p_, low)
  low_pc = c.concretize(low % 12)
  bass = cs.chord_symbol_bass(res)
  got = sorted(set(p_ % 12 for p_ in cs.chord_symbol_pitches(res)) | {bass})
  c.check(bass == low_pc, 'the lowest supplied pitch is the bass')
  c.check(got == pcs, 'the name of a table kind denotes exactly its pitch '
                      'classes')
  # and the kind's own abbreviations denote the degrees of the table
  want_q = _quality_value(cs, _model_quality(_model_degrees(degrees)))
  kind_pcs = sorted(set((rootc + _degree_pc(d)) % 12 for d in degrees))
  for ab in abbrevs:
    fig = 'C' + ab
    c.check(sorted(set(cs.chord_symbol_pitches(fig))) ==
            sorted(set(_degree_pc(d) for d in degrees)),
            'every abbreviation of a kind denotes the degrees the table lists')
    # ... on every root, with the quality of its triad on degrees 1, 3, 5
    fig = _ROOT_NAMES[rootc] + ab
    c.check(sorted(set(cs.chord_symbol_pitches(fig))) == kind_pcs,
            'every abbreviation of a kind denotes the degrees the table lists, '
            'on every root')
    c.check(cs.chord_symbol_root(fig) == rootc and
            cs.chord_symbol_bass(fig) == rootc,
            'root and bass of a kind without a slash are the spelled root')
    c.check(cs.chord_symbol_quality(fig) == want_q,
            'the quality of a table kind is that of its triad on degrees '
            '1, 3, 5')
  c.cover('named')


_STEP_PC = {'C': 0, 'D': 2, 'E': 4, 'F': 5, 'G': 7, 'A': 9, 'B': 11}


def _spell(c, name, steps, alters):
  step = c.choice(name + '_step', steps)
  alter = c.choice(name + '_alter', alters)
  return (step + ('#' * alter if alter > 0 else 'b' * -alter),
          (_STEP_PC[step] + alter) % 12)


def h_symbol(c):
  """Any parseable symbol: root / bass / quality / pitch classes mutually
  consistent.  The figure is assembled from choices (root spelling, kind from
  the module's own table, up to M scale-degree modifications, optional bass);
  the solver closes each choice domain."""
  cs = c.mod('chord_symbols_lib')
  kinds = sorted(cs._CHORD_KINDS_BY_ABBREV)
  if 'kind_names' in c.params:
    kinds = list(c.params['kind_names'])
    lo, hi = 0, len(kinds)
  else:
    lo, hi = c.params['kinds']
  mods = sorted(cs._DEGREE_MODIFICATIONS)
  root_str, root_pc = _spell(c, 'root', c.params['root_steps'],
                             c.params['root_alters'])
  kind = c.choice('kind', kinds[lo:hi])
  fig = root_str + kind
  M = c.params['M']
  paren = c.params.get('paren', True)
  applied = []
  for j in range(M):
    present = c.choice('mod%d_present' % j, [False, True])
    if not present:
      break
    m = c.choice('mod%d_type' % j, c.params.get('mod_types') or mods)
    d = c.choice('mod%d_degree' % j, c.params['degrees'])
    fig += ('(%s%d)' if paren else '%s%d') % (m, d)
    applied.append((m, d))
  if not paren and kind == '' and applied and applied[0][0] in ('#', 'b'):
    # a bare alteration directly after the root letter belongs to the root
    # spelling ('C' + 'b5' is C flat with the kind '5'): the spelled root is
    # one semitone off, if the figure is a symbol at all
    root_pc = (root_pc + (1 if applied[0][0] == '#' else -1)) % 12
  bass_pc = root_pc
  if c.choice('has_bass', [False, True]):
    bass_str, bass_pc = _spell(c, 'bass', c.params['bass_steps'],
                               c.params['bass_alters'])
    fig += '/' + bass_str
  out = {}
  for fn in ('chord_symbol_root', 'chord_symbol_bass', 'chord_symbol_pitches',
             'chord_symbol_quality'):
    res, err = c.raises(getattr(cs, fn), fig)
    if err is not None:
      c.check(isinstance(err, cs.ChordSymbolError),
              'an uninterpretable symbol raises ChordSymbolError')
      c.cover('symbol rejected')
      out[fn] = None
    else:
      out[fn] = res
  root, bass = out['chord_symbol_root'], out['chord_symbol_bass']
  pitches, q = out['chord_symbol_pitches'], out['chord_symbol_quality']
  if root is not None:
    c.check(root == root_pc, 'root pitch class is the spelled root (0..11)')
  if bass is not None:
    c.check(bass == bass_pc,
            'bass pitch class is the spelled bass, or the root without one')
  c.check((pitches is None) == (q is None),
          'pitches and quality are defined for the same symbols')
  deg = ok = None
  if paren:
    # The meaning of a parenthesised figure (none of this grid is ambiguous),
    # from the kind's degree list in the module's table and the documented
    # modification types, worked out by the harness.
    deg = _model_degrees(cs._CHORD_KINDS_BY_ABBREV[kind])
    ok = all(_model_modify(deg, m, d) for m, d in applied)
    if ok:
      c.check(pitches is not None and root is not None and bass is not None,
              'a grammatical symbol is rejected only for adding a degree '
              'already present or removing an absent one')
    else:
      c.check(pitches is None,
              'a symbol that adds a degree already present or removes an '
              'absent one is rejected')
  if pitches is None or root is None:
    return
  c.cover('symbol accepted')
  c.check(all(isinstance(p, int) and 0 <= p <= 11 for p in pitches),
          'pitch classes in 0..11')
  names = {cs.CHORD_QUALITY_MAJOR: 'major', cs.CHORD_QUALITY_MINOR: 'minor',
           cs.CHORD_QUALITY_AUGMENTED: 'augmented',
           cs.CHORD_QUALITY_DIMINISHED: 'diminished'}
  if q in names:
    tri = set((root + d) % 12 for d in _TRIADS[names[q]])
    c.check(tri <= set(pitches),
            'a triad quality implies the triad on the root is among the '
            'pitches')
    c.cover('triad quality with a modification', '(' in fig)
  else:
    c.check(q == cs.CHORD_QUALITY_OTHER, 'quality is one of the five values')
  if not paren:
    return  # bare modifications can merge with root / kind; no model for them
  c.check(sorted(set(pitches)) == _model_pcs(root_pc, deg),
          'the pitch classes are those of the kind with its modifications '
          'applied in order')
  if not any(n in deg for n in (8, 10, 12)):
    c.check(q == _quality_value(cs, _model_quality(deg)),
            'the quality is that of the triad on degrees 1, 3, 5')
  c.cover('modified symbol matches the model', bool(applied))

_NOT_SYMBOLS = ['', 'N.C.', 'H7', 'c7', 'Cfoo', 'C/', 'C7/H', 'C(add)', 'Cadd',
                'C#b7', '7', 'C 7', 'Cmaj7/', 'C(9)', 'Cb3']


def h_reject(c):
  """Edges of the domain: the empty pitch list (outside the property's
  quantifier; it is either given the library's no-chord name or refused like
  any set that cannot be named), and strings that are no chord symbols, which
  each of the four interpreters refuses with ChordSymbolError as documented."""
  cs = c.mod('chord_symbols_lib')
  if c.choice('what', ['empty', 'string']) == 'empty':
    arg = c.choice('container', [[], (), set()])
    res, err = c.raises(cs.pitches_to_chord_symbol, arg)
    if err is not None:
      c.check(isinstance(err, cs.ChordSymbolError),
              'a set that cannot be named raises ChordSymbolError and nothing '
              'else')
    else:
      c.check(res == c.mod('constants').NO_CHORD,
              'no pitches are named as no chord, if named at all')
    c.cover('empty pitch list')
    return
  fig = c.choice('fig', _NOT_SYMBOLS)
  fn = c.choice('fn', ['chord_symbol_root', 'chord_symbol_bass',
                       'chord_symbol_pitches', 'chord_symbol_quality'])
  res, err = c.raises(getattr(cs, fn), fig)
  c.check(err is not None, 'a string that is no chord symbol is not interpreted')
  c.check(err is None or isinstance(err, cs.ChordSymbolError),
          'an uninterpretable symbol raises ChordSymbolError')
  c.cover('string refused')


def h_mods(c):
  """_degrees_to_modifications called directly, also where the namer never
  takes it (target not a superset of the kind): the modifications it writes
  turn the chord into the target chord, as its docstring says.  Both degree
  lists come from the module's table; a degree present in both may differ only
  as natural -> altered by one semitone (the function refuses to alter to a
  natural, and an alteration is written relative to the degree as it stands)."""
  cs = c.mod('chord_symbols_lib')
  kinds = cs._CHORD_KINDS
  lo, hi = c.params['kinds']
  ab1, deg1 = c.choice('from', kinds[lo:hi])
  _, deg2 = c.choice('to', kinds)
  d1, d2 = _model_degrees(deg1), _model_degrees(deg2)
  for n in d1:
    if n in d2 and d1[n] != d2[n]:
      c.assume(d1[n] == 0 and abs(d2[n]) == 1)
  res, err = c.raises(cs._degrees_to_modifications, list(deg1), list(deg2))
  c.check(err is None, 'modifications between two table kinds are found')
  if err is not None:
    return
  want = sorted(set(_degree_pc(d) for d in deg2))
  for ab in ab1[:2]:
    got, err = c.raises(cs.chord_symbol_pitches, 'C' + ab + res)
    c.check(err is None and sorted(set(got)) == want,
            'the modifications turn the chord into the target chord')
  c.cover('a degree is removed', '(no' in res)
  c.cover('a present degree is altered',
          any(n in d2 and d1[n] != d2[n] for n in d1))


HARNESSES = {'h_name': h_name, 'h_symbol': h_symbol, 'h_kind': h_kind,
             'h_reject': h_reject, 'h_mods': h_mods}


def jobs(tier):
  J = []

  def add(budget=600, required=True, harness='h_name', **params):
    J.append({'harness': harness, 'params': params, 'budget_s': budget,
              'required': required})

  deep = tier == 'thorough'
  add(K=1)
  add(K=2)
  for first in range(0, 10):
    add(K=3, first=first)
  # a pitch class doubled in another octave (bass = lowest PITCH, not the
  # lowest of one representative per class)
  add(K=1, doubled=True)
  add(K=2, doubled=True)
  for first in range(0, 10, 3):
    add(K=3, first=first, doubled=True)
  # every kind of the module's table on every root, all layouts
  for lo in range(0, 29, 3):  # 29 kinds in the table
    add(harness='h_kind', kinds=[lo, lo + 3], budget=900)
  # parseable symbols: every kind of the table x <=1 modification (every type,
  # degrees 1..13) x 3 root spellings x {no bass, 2 basses}
  for lo in range(0, 68, 9):
    add(harness='h_symbol', kinds=[lo, lo + 9], M=1,
        root_steps=['C', 'F', 'B'], root_alters=[0], degrees=list(range(1, 14)),
        bass_steps=['E'], bass_alters=[0, -1], budget=900)
  add(harness='h_symbol', kinds=[0, 4], M=0, root_steps=list('CDEFGAB'),
      root_alters=[-2, -1, 0, 1, 2], degrees=[], bass_steps=list('CDEFGAB'),
      bass_alters=[-2, -1, 0, 1, 2])
  # --- added after the audit of untested behaviours ---------------------
  # storage order / container of the argument (reversed, rotated, tuple, set),
  # incl. pitches 108..127
  add(K=2, container='any', octs=[4, 5])
  add(K=3, first=1, container='any', octs=[9, 10])
  # the identical pitch supplied twice
  add(K=2, doubled='same')
  # the one set with no name (all twelve pitch classes): the error branch
  add(K=12, first=0, octs=[4, 5])
  # triads, sevenths, sixths, sus, ped, 5 plus ONE foreign pitch class (slash
  # chords over a foreign bass, one added or altered tension)
  for lo, hi in ((0, 2), (2, 4), (4, 7), (24, 27)):
    add(harness='h_kind', kinds=[lo, hi], extra=True, budget=900)
  # two modifications in a row, against the harness's model of the figure
  for names in (['', 'm', '+'], ['o', '7', 'maj7'], ['m7b5', 'o7', 'sus'],
                ['5', '13', '6/9']):
    add(harness='h_symbol', kind_names=names, M=2, root_steps=['E'],
        root_alters=[-1], degrees=[1, 3, 5, 7, 9], bass_steps=['G'],
        bass_alters=[0], budget=900)
  add(harness='h_reject')
  add(harness='h_mods', kinds=[0, 15])
  add(harness='h_mods', kinds=[15, 29])
  if deep:
    for lo in list(range(7, 24, 2)) + [27]:
      add(harness='h_kind', kinds=[lo, lo + 2], extra=True, budget=3000)
    # two modifications, all 35 root spellings
    for lo in range(0, 68, 2):
      add(harness='h_symbol', kinds=[lo, lo + 2], M=2,
          root_steps=['C', 'A'], root_alters=[0, 1],
          degrees=[1, 2, 3, 4, 5, 6, 7, 9, 11, 13], bass_steps=['G'],
          bass_alters=[0], budget=3000)
    for lo in range(0, 68, 4):
      add(harness='h_symbol', kinds=[lo, lo + 4], M=1, paren=False,
          root_steps=list('CDEFGAB'), root_alters=[-2, -1, 0, 1, 2],
          degrees=[1, 3, 5, 7, 9], bass_steps=['D'], bass_alters=[1],
          budget=3000)
    for k in (4, 5):
      for first in range(0, 13 - k):
        add(K=k, first=first, budget=3000)
    # sets of 6 pitch classes take 50-90 min per job since the second naming
    # call and the container variants were added: optional
    for first in range(0, 13 - 6):
      add(K=6, first=first, budget=3000, required=False)
    for first in range(0, 10):
      add(K=3, first=first, doubled=True, budget=3000)
    add(K=4, first=0, doubled=True, budget=3000)
    for k in (7, 8):
      for first in range(0, 13 - k):
        add(K=k, first=first, budget=3000, required=False)
  return J
