"""C15 -- a chord symbol computed from pitches denotes exactly those pitches
(degenerate for this technique, labelled)."""

META = {
    'level': 'model_checking',
    'level_text':
        'pitches_to_chord_symbol iterates Python sets, builds strings and is '
        'interpreted back through regular expressions, so every path '
        'concretises the pitch-class set: on this property symbolic execution '
        'DEGENERATES TO SOLVER-DRIVEN ENUMERATION of the pitch-class sets '
        '(fully concretised: yes for the naming clause). What stays symbolic '
        'is the octave layout: pitches are pc_i + 12*o_i with free octaves '
        'o_i in [0,9], so "the lowest supplied pitch is the bass" is decided '
        'for all layouts by the solver, and the domain of pitch-class sets is '
        'closed by the solver (unsat of "another set exists"), not by a loop '
        'in the harness.',
    'level_note':
        'Trusted: z3 (integers), the chord-symbol parser of the same module as '
        'the meaning of a name (the property is stated in terms of it).',
    'functions': [('chord_symbols_lib', 'pitches_to_chord_symbol'),
                  ('chord_symbols_lib',
                   '_largest_chord_kind_from_relative_pitches'),
                  ('chord_symbols_lib', '_degrees_to_modifications'),
                  ('chord_symbols_lib', 'chord_symbol_pitches'),
                  ('chord_symbols_lib', 'chord_symbol_bass'),
                  ('chord_symbols_lib', 'chord_symbol_root'),
                  ('chord_symbols_lib', 'chord_symbol_quality')],
    'assumptions': ['K distinct pitch classes per job, octaves 0..9'],
    'bounds': {
        'quick': 'all sets of 1..3 pitch classes, every bass / octave layout',
        'thorough': 'all sets of 1..6 pitch classes (2509 sets), every bass; '
                    'sets of 7..12 not required to finish',
    },
    'outside': ['sets larger than completed bounds (see jobs_not_completed)'],
}

_TRIADS = {'major': (0, 4, 7), 'minor': (0, 3, 7), 'augmented': (0, 4, 8),
           'diminished': (0, 3, 6)}


def h_name(c):
  cs = c.mod('chord_symbols_lib')
  Kn = c.params['K']
  pcs = [c.int('pc%d' % i, 0, 11) for i in range(Kn)]
  for a, b in zip(pcs, pcs[1:]):
    c.assume(a < b)  # a set: strictly increasing representatives
  if 'first' in c.params:
    c.assume(c.eq(pcs[0], c.params['first']))
  octs = [c.int('o%d' % i, 0, 9) for i in range(Kn)]
  pitches = [pc + 12 * o for pc, o in zip(pcs, octs)]
  res, err = c.raises(cs.pitches_to_chord_symbol, list(pitches))
  if err is not None:
    c.check(isinstance(err, cs.ChordSymbolError),
            'a set that cannot be named raises ChordSymbolError and nothing '
            'else')
    c.cover('unnameable set')
    return
  c.cover('named set')
  name = res
  want = sorted(c.concretize(p) for p in pcs)
  # lowest supplied pitch (octaves symbolic: decided by the solver)
  low = pitches[0]
  for p in pitches[1:]:
    low = c.If(p < low, p, low)
  low_pc = c.concretize(low % 12)
  root = cs.chord_symbol_root(name)
  bass = cs.chord_symbol_bass(name)
  got = sorted(set(p % 12 for p in cs.chord_symbol_pitches(name)) | {bass})
  c.check(0 <= root <= 11 and 0 <= bass <= 11, 'root and bass in 0..11')
  c.check(bass == low_pc, 'the lowest supplied pitch is the bass')
  c.check(got == want,
          'the name denotes exactly the supplied pitch classes')
  q = cs.chord_symbol_quality(name)
  names = {cs.CHORD_QUALITY_MAJOR: 'major', cs.CHORD_QUALITY_MINOR: 'minor',
           cs.CHORD_QUALITY_AUGMENTED: 'augmented',
           cs.CHORD_QUALITY_DIMINISHED: 'diminished'}
  if q in names:
    tri = set((root + d) % 12 for d in _TRIADS[names[q]])
    c.check(tri <= set(cs.chord_symbol_pitches(name)),
            'a triad quality implies the triad is among the pitches')


HARNESSES = {'h_name': h_name}


def jobs(tier):
  J = []

  def add(budget=600, required=True, **params):
    J.append({'harness': 'h_name', 'params': params, 'budget_s': budget,
              'required': required})

  deep = tier == 'thorough'
  add(K=1)
  add(K=2)
  for first in range(0, 10):
    add(K=3, first=first)
  if deep:
    for k in (4, 5, 6):
      for first in range(0, 13 - k):
        add(K=k, first=first, budget=3000)
    for k in (7, 8):
      for first in range(0, 13 - k):
        add(K=k, first=first, budget=3000, required=False)
  return J
