"""C09 -- every one-hot event encoding is a bijection onto its class range."""
from props import common as K

META = {
    'level': 'model_checking',
    'level_text':
        'The real encode_event/decode_event of every OneHotEncoding are '
        'executed with the *configuration and the index/event symbolic at the '
        'same time* (all 8256 melody ranges, all velocity-bin counts x shift '
        'limits x pitch ranges of the performance encoding, arbitrary sorted '
        'density boundaries) and the solver shows decode-then-encode is the '
        'identity on [0,num_classes), encode lands in range and '
        'encode-then-decode returns the canonical representative. Drum and '
        'chord decoders go through bin()/name tables/regex, so their index is '
        'closed by solver-driven concretisation (fully concretised, labelled).',
    'level_note':
        'Trusted: z3 (integers/reals). Velocity bin count is concretised '
        '(1..127 closed by the solver) because ceil(127/n) is nonlinear. Chord '
        'symbols for the encode direction are concrete strings from a grid.',
    'functions': [('melody_encoder_decoder', 'MelodyOneHotEncoding.encode_event'),
                  ('melody_encoder_decoder', 'MelodyOneHotEncoding.decode_event'),
                  ('chords_encoder_decoder',
                   'MajorMinorChordOneHotEncoding.encode_event'),
                  ('chords_encoder_decoder',
                   'MajorMinorChordOneHotEncoding.decode_event'),
                  ('chords_encoder_decoder',
                   'TriadChordOneHotEncoding.encode_event'),
                  ('chords_encoder_decoder',
                   'TriadChordOneHotEncoding.decode_event'),
                  ('drums_encoder_decoder',
                   'MultiDrumOneHotEncoding.encode_event'),
                  ('drums_encoder_decoder',
                   'MultiDrumOneHotEncoding.decode_event'),
                  ('performance_encoder_decoder',
                   'PerformanceOneHotEncoding.encode_event'),
                  ('performance_encoder_decoder',
                   'PerformanceOneHotEncoding.decode_event'),
                  ('performance_lib', 'velocity_to_bin'),
                  ('performance_lib', 'velocity_bin_to_velocity'),
                  ('performance_lib', '_velocity_bin_size'),
                  ('performance_controls',
                   'NoteDensityPerformanceControlSignal.NoteDensityOneHotEncoding.encode_event'),
                  ('performance_controls',
                   'NoteDensityPerformanceControlSignal.NoteDensityOneHotEncoding.decode_event')],
    'assumptions': [
        'note-density boundaries strictly increasing and positive for the index '
        'round trip (documented use)',
        'fully concretised sub-claims: drum class index (512), chord class '
        'index (25/49), velocity-bin count (127), chord strings, drum pitch '
        'sets',
    ],
    'bounds': {
        'quick': 'melody/performance: all configurations (symbolic); density: '
                 '<=3 boundaries; drums: all 512 indices, all sets of <=2 pitches; '
                 'chords: all indices + 60 symbols',
        'thorough': 'density <=4 boundaries; drum sets of 3 pitches over the '
                    'whole table + unknown pitches; ~700 chord symbols',
    },
    'outside': ['drum sets of more than 3 pitches'],
}


def h_melody(c):
  med = c.mod('melody_encoder_decoder')
  lo = c.int('min_note', 0, 127)
  hi = c.int('max_note', 1, 128)
  c.assume(lo < hi)
  other = med.MelodyOneHotEncoding(48, 84)  # another object in the process
  enc = med.MelodyOneHotEncoding(lo, hi)
  n = enc.num_classes
  c.check(c.eq(n, hi - lo + 2), 'num_classes')
  c.check(other.num_classes == 38 and other.decode_event(2) == 48 and
          other.encode_event(83) == 37,
          'an encoding is not disturbed by another one with another range')
  i = c.int('index', 0, 129)
  c.assume(i < n)
  ev = enc.decode_event(i)
  c.check(c.And(ev >= -2, ev < hi, c.Or(ev < 0, ev >= lo)),
          'decoded event is valid')
  c.check(c.eq(enc.encode_event(ev), i), 'encode(decode(i)) == i')
  e = c.int('event', -5, 130)
  valid = c.And(e >= -2, e < hi, c.Or(e < 0, e >= lo))
  res, err = c.raises(enc.encode_event, e)
  if err is not None:
    c.check(isinstance(err, ValueError), 'only ValueError')
    c.check(c.Not(valid), 'valid event rejected')
    c.cover('invalid event rejected')
  else:
    c.check(valid, 'invalid event encoded')
    c.check(c.And(res >= 0, res < n), 'encode lands in [0, num_classes)')
    c.check(c.eq(enc.decode_event(res), e), 'decode(encode(e)) == e')
    c.cover('valid event')
  c.check(c.eq(enc.default_event, -2) and True, 'default event')
  c.cover('event just below min_note', c.And(e >= 0, c.eq(e, lo - 1)))
  c.cover('event equal to max_note', c.eq(e, hi))


def h_melody_ctor(c):
  med = c.mod('melody_encoder_decoder')
  lo = c.int('min_note', -3, 130)
  hi = c.int('max_note', -3, 130)
  res, err = c.raises(med.MelodyOneHotEncoding, lo, hi)
  legal = c.And(lo >= 0, hi <= 128, hi > lo)
  if err is not None:
    c.check(isinstance(err, ValueError) and c.Not(legal),
            'legal range rejected')
  else:
    c.check(legal, 'illegal range accepted')


def h_performance(c):
  ped = c.mod('performance_encoder_decoder')
  pl = c.mod('performance_lib')
  PE = pl.PerformanceEvent
  nv = c.int('num_velocity_bins', 0, 127)
  ms = c.int('max_shift_steps', 1, 1000)
  lo = c.int('min_pitch', 0, 127)
  hi = c.int('max_pitch', 0, 127)
  c.assume(lo <= hi)
  other = ped.PerformanceOneHotEncoding(2, 3, 60, 61)
  enc = ped.PerformanceOneHotEncoding(nv, ms, lo, hi)
  n = enc.num_classes
  c.check(c.eq(n, 2 * (hi - lo + 1) + ms + nv), 'num_classes')
  c.check(other.num_classes == 9 and
          [other.decode_event(k).event_value for k in range(9)] ==
          [60, 61, 60, 61, 1, 2, 3, 1, 2],
          'an encoding is not disturbed by another one with other settings')
  i = c.int('index', 0, 2000)
  c.assume(i < n)
  ev = enc.decode_event(i)
  c.check(c.eq(enc.encode_event(ev), i), 'encode(decode(i)) == i')
  which = c.params['etype']
  if which == PE.VELOCITY:
    c.assume(nv > 0)
    v = c.int('value', 1, 127)
    c.assume(v <= nv)
  elif which == PE.TIME_SHIFT:
    v = c.int('value', 1, 1000)
    c.assume(v <= ms)
  else:
    v = c.int('value', 0, 127)
    c.assume(c.And(v >= lo, v <= hi))
  e = PE(which, v)
  idx = enc.encode_event(e)
  c.check(c.And(idx >= 0, idx < n), 'encode lands in [0, num_classes)')
  d = enc.decode_event(idx)
  c.check(c.And(c.eq(d.event_type, which), c.eq(d.event_value, v)),
          'decode(encode(e)) == e')
  c.check(c.eq(enc.event_to_num_steps(e), v if which == PE.TIME_SHIFT else 0),
          'event_to_num_steps')


def h_velocity(c):
  pl = c.mod('performance_lib')
  n = c.concretize(c.int('bins', 1, 127))
  v = c.int('v', 1, 127)
  w = c.int('w', 1, 127)
  b = pl.velocity_to_bin(v, n)
  c.check(c.And(b >= 1, b <= n), 'bin in 1..num_velocity_bins')
  c.check(c.Implies(v <= w, b <= pl.velocity_to_bin(w, n)), 'binning monotone')
  back = pl.velocity_bin_to_velocity(b, n)
  c.check(c.And(back >= 1, back <= 127, back <= v), 'bin lower bound is a '
          'velocity not above the original')
  c.check(c.eq(pl.velocity_to_bin(back, n), b),
          'bin-to-velocity is a right inverse of velocity-to-bin')


def h_density(c):
  pc = c.mod('performance_controls')
  nb = c.params['B']
  bs = [c.real('b%d' % i, 0) for i in range(nb)]
  for a, b in zip(bs, bs[1:]):
    c.assume(a <= b)
  cls = pc.NoteDensityPerformanceControlSignal.NoteDensityOneHotEncoding
  # a second object with other boundaries lives in the same process
  other = cls([1.0, 5.0])
  enc = cls(list(bs))
  c.check(enc.num_classes == nb + 1, 'num_classes')
  c.check([other.decode_event(k) for k in range(3)] == [0.0, 1.0, 5.0] and
          other.num_classes == 3,
          'an encoding is not disturbed by another one with other boundaries')
  x = c.real('x', 0)
  i = enc.encode_event(x)
  ii = c.concretize(i)
  c.check(0 <= ii <= nb, 'encode lands in [0, num_classes)')
  d = enc.decode_event(ii)
  lower = 0 if ii == 0 else bs[ii - 1]
  c.check(c.eq(d, lower), 'decode(encode(x)) is the lower bound of the bin')
  c.check(c.And(lower <= x, c.Or(ii == nb, x < bs[min(ii, nb - 1)])
                if nb else True), 'x lies in the bin it was assigned')
  strict = c.And([bs[0] > 0] + [a < b for a, b in zip(bs, bs[1:])]) if nb else True
  j = c.concretize(c.int('j', 0, nb))
  c.check(c.Implies(strict, c.eq(enc.encode_event(enc.decode_event(j)), j)),
          'encode(decode(j)) == j for strictly increasing boundaries')
  if nb:
    c.cover('event exactly on a boundary', c.eq(x, bs[0]))


def h_drums_decode(c):
  ded = c.mod('drums_encoder_decoder')
  enc = ded.MultiDrumOneHotEncoding()
  n = enc.num_classes
  c.check(n == 512, 'num_classes')
  lo, hi = c.params['range']
  i = c.int('index', lo, hi)
  ev = enc.decode_event(i)
  c.check(c.eq(enc.encode_event(ev), i), 'encode(decode(i)) == i')
  c.check(all(p == enc._drum_map[enc._inverse_drum_map[p]][0] for p in ev),
          'decoded pitches are the canonical pitch of their drum type')


def h_drums_encode(c):
  ded = c.mod('drums_encoder_decoder')
  enc = ded.MultiDrumOneHotEncoding()
  table = sorted(enc._inverse_drum_map) + [0, 127]
  k = c.params['K']
  sub = table[c.params['lo']:c.params['hi']]
  ps = [c.choice('p%d' % j, table if j else sub) for j in range(k)]
  ev = frozenset(ps)
  idx = enc.encode_event(ev)
  c.check(0 <= idx < 512, 'encode lands in [0, num_classes)')
  types = set(enc._inverse_drum_map[p] for p in ps if p in enc._inverse_drum_map)
  c.check(enc.decode_event(idx) == frozenset(enc._drum_map[t][0] for t in types),
          'decode(encode(e)) = canonical pitches of the same drum classes')
  strict = ded.MultiDrumOneHotEncoding(ignore_unknown_drums=False)
  res, err = c.raises(strict.encode_event, ev)
  unknown = any(p not in enc._inverse_drum_map for p in ps)
  c.check((err is not None and isinstance(err, ded.DrumsEncodingError))
          if unknown else (err is None and res == idx),
          'unknown drums raise DrumsEncodingError iff not ignored')


def h_chords_decode(c):
  ced = c.mod('chords_encoder_decoder')
  cs = c.mod('chord_symbols_lib')
  enc = (ced.TriadChordOneHotEncoding() if c.params['triad'] else
         ced.MajorMinorChordOneHotEncoding())
  n = enc.num_classes
  c.check(n == (49 if c.params['triad'] else 25), 'num_classes')
  i = c.int('index', 0, n - 1)
  ev = enc.decode_event(i)
  c.check(c.eq(enc.encode_event(ev), i), 'encode(decode(i)) == i')


def h_chords_encode(c):
  ced = c.mod('chords_encoder_decoder')
  cs = c.mod('chord_symbols_lib')
  fig = c.params['figure']
  for enc, quals in ((ced.MajorMinorChordOneHotEncoding(), (0, 1)),
                     (ced.TriadChordOneHotEncoding(), (0, 1, 2, 3))):
    try:
      root = cs.chord_symbol_root(fig)
      qual = cs.chord_symbol_quality(fig)
    except cs.ChordSymbolError:
      c.cover('grid symbol rejected by the parser')
      return
    res, err = c.raises(enc.encode_event, fig)
    if qual in quals:
      c.check(err is None and 0 <= res < enc.num_classes,
              'encode lands in [0, num_classes)')
      back = enc.decode_event(res)
      c.check(cs.chord_symbol_root(back) == root and
              cs.chord_symbol_quality(back) == qual,
              'decode(encode(chord)) has the same root and triad quality')
      c.cover('encodable chord')
    else:
      c.check(err is not None and isinstance(err, ced.ChordEncodingError),
              'other qualities raise ChordEncodingError')
      c.cover('non-triad chord rejected')
  c.check(enc.encode_event('N.C.') == 0 and enc.decode_event(0) == 'N.C.',
          'no-chord is class 0')


HARNESSES = {
    'h_melody': h_melody,
    'h_melody_ctor': h_melody_ctor,
    'h_performance': h_performance,
    'h_velocity': h_velocity,
    'h_density': h_density,
    'h_drums_decode': h_drums_decode,
    'h_drums_encode': h_drums_encode,
    'h_chords_decode': h_chords_decode,
    'h_chords_encode': h_chords_encode,
}

_ROOTS = [s + a for s in 'ABCDEFG' for a in ('', '#', 'b', '##', 'bb')]
_KINDS = ['', 'm', '+', 'dim', '7', 'maj7', 'm7', 'sus', '5', 'm7b5', 'aug7',
          '6', 'm6', '9', 'mMaj7', 'o7']


def jobs(tier):
  J = []

  def add(h, budget=200, required=True, **params):
    J.append({'harness': h, 'params': params, 'budget_s': budget,
              'required': required})

  deep = tier == 'thorough'
  add('h_melody')
  add('h_melody_ctor')
  for et in (1, 2, 3, 4):
    add('h_performance', etype=et)
  add('h_velocity', budget=400)
  for b in (0, 1, 2, 3):
    add('h_density', B=b)
  for lo in range(0, 512, 64):
    add('h_drums_decode', range=[lo, lo + 63])
  add('h_drums_encode', K=1, lo=0, hi=70)
  for lo in range(0, 63, 8):
    # all pairs of pitches (two pitches of one drum class set one bit)
    add('h_drums_encode', K=2, lo=lo, hi=lo + 8, budget=900)
  add('h_chords_decode', triad=False)
  add('h_chords_decode', triad=True)
  n = 0
  for r in _ROOTS:
    for kd in _KINDS:
      n += 1
      if deep or n % 9 == 0:
        add('h_chords_encode', figure=r + kd + ('/' + _ROOTS[(n * 3) % 35]
                                                if n % 4 == 0 else ''))
  if deep:
    add('h_density', B=4, budget=900)
    for lo in range(0, 63, 4):
      add('h_drums_encode', K=3, lo=lo, hi=lo + 4, budget=1800)
  return J
