"""C09 -- every one-hot event encoding is a bijection onto its class range."""
from props import common as K

META = {
    'level': 'model_checking',
    'level_text':
        'The real encode_event/decode_event of every OneHotEncoding are '
        'executed with the *configuration and the index/event symbolic at the '
        'same time* (all 8256 melody ranges, all velocity-bin counts x shift '
        'limits x pitch ranges of the performance encoding, arbitrary sorted '
        'density boundaries) and the solver shows decode-then-encode is the '
        'identity on [0,num_classes), encode lands in range and '
        'encode-then-decode returns the canonical representative. Drum and '
        'chord decoders go through bin()/name tables/regex, so their index is '
        'closed by solver-driven concretisation (fully concretised, labelled).',
    'level_note':
        'Trusted: z3 (integers/reals). Velocity bin count is concretised '
        '(1..127 closed by the solver) because ceil(127/n) is nonlinear. Chord '
        'symbols for the encode direction are concrete strings from a grid.',
    'functions': [('melody_encoder_decoder', 'MelodyOneHotEncoding.encode_event'),
                  ('melody_encoder_decoder', 'MelodyOneHotEncoding.decode_event'),
                  ('chords_encoder_decoder',
                   'MajorMinorChordOneHotEncoding.encode_event'),
                  ('chords_encoder_decoder',
                   'MajorMinorChordOneHotEncoding.decode_event'),
                  ('chords_encoder_decoder',
                   'TriadChordOneHotEncoding.encode_event'),
                  ('chords_encoder_decoder',
                   'TriadChordOneHotEncoding.decode_event'),
                  ('drums_encoder_decoder',
                   'MultiDrumOneHotEncoding.encode_event'),
                  ('drums_encoder_decoder',
                   'MultiDrumOneHotEncoding.decode_event'),
                  ('performance_encoder_decoder',
                   'PerformanceOneHotEncoding.encode_event'),
                  ('performance_encoder_decoder',
                   'PerformanceOneHotEncoding.decode_event'),
                  ('performance_encoder_decoder',
                   'PerformanceOneHotEncoding.__init__'),
                  ('performance_encoder_decoder',
                   'PerformanceOneHotEncoding.default_event'),
                  ('performance_lib', 'PerformanceEvent._check_event'),
                  ('drums_encoder_decoder',
                   'MultiDrumOneHotEncoding.__init__'),
                  ('performance_controls',
                   'NoteDensityPerformanceControlSignal.__init__'),
                  ('encoder_decoder', 'OneHotEncoding.event_to_num_steps'),
                  ('performance_lib', 'velocity_to_bin'),
                  ('performance_lib', 'velocity_bin_to_velocity'),
                  ('performance_lib', '_velocity_bin_size'),
                  ('performance_controls',
                   'NoteDensityPerformanceControlSignal.NoteDensityOneHotEncoding.encode_event'),
                  ('performance_controls',
                   'NoteDensityPerformanceControlSignal.NoteDensityOneHotEncoding.decode_event')],
    'assumptions': [
        'note-density boundaries strictly increasing and positive for the index '
        'round trip (documented use)',
        'fully concretised sub-claims: drum class index (512), chord class '
        'index (25/49), velocity-bin count (127), chord strings, drum pitch '
        'sets',
        'oracle tables copied literally from the documentation: default drum '
        'kit rows (first pitch = representative), chord layout root + 1 + 12 * '
        'quality, constructor defaults 0 bins / 100 shift steps / pitches '
        '0..127; chord root by own letter+accidental parser, triad quality by '
        'chord_symbols_lib',
        'default_event: only "is a valid event that encodes into range and '
        'round-trips" (value pinned for melody only)',
        'performance events of a type without classes (DURATION, VELOCITY with '
        '0 bins) must be rejected; out-of-range values of a known type and '
        'indices outside [0, num_classes) are undocumented and not examined',
    ],
    'bounds': {
        'quick': 'melody/performance: all configurations (symbolic), also '
                 'through constructor defaults and keywords; PerformanceEvent '
                 'validator: types -1..7 x values -3..1000; velocity: all bins '
                 '1..n of all n; density: <=3 boundaries, directly and through '
                 'NoteDensityPerformanceControlSignal; drums: all 512 indices, '
                 'all sets of <=2 pitches, triples with the 2nd/3rd pitch from '
                 'every 5th table entry, custom tables of 3 and 10 types (all '
                 'indices, pairs of pitches); chords: all indices + 60 symbols '
                 '+ 18 other spellings',
        'thorough': 'density <=4 boundaries; drum sets of 3 pitches over the '
                    'whole table + unknown pitches; ~1200 chord symbols',
    },
    'outside': ['drum sets of more than 3 pitches'],
}


# Literal copy of the documented default drum kit table
# (drums_encoder_decoder.DEFAULT_DRUM_TYPE_PITCHES); the first pitch of a row is
# the canonical representative of the drum type.
_DRUMS = [
    [36, 35],
    [38, 27, 28, 31, 32, 33, 34, 37, 39, 40, 56, 65, 66, 75, 85],
    [42, 44, 54, 68, 69, 70, 71, 73, 78, 80, 22],
    [46, 67, 72, 74, 79, 81, 26],
    [45, 29, 41, 43, 61, 64, 84],
    [48, 47, 60, 63, 77, 86, 87],
    [50, 30, 62, 76, 83],
    [49, 52, 55, 57, 58],
    [51, 53, 59, 82],
]
_CUSTOM_DRUMS = {
    # pitches that the default table files under other drum types
    'small': [[41, 40], [50], [62, 60, 61]],
    # more types than the default kit has
    'big': [[20], [21, 36], [22], [23], [24], [25], [26], [27], [28], [29, 99]],
}
_LETTER_PC = {'C': 0, 'D': 2, 'E': 4, 'F': 5, 'G': 7, 'A': 9, 'B': 11}


def _root_pc(fig):
  """Pitch class of the root of a chord figure: letter plus accidentals."""
  pc = _LETTER_PC[fig[0]]
  k = 1
  while k < len(fig) and fig[k] in '#b':
    pc += 1 if fig[k] == '#' else -1
    k += 1
  return pc % 12


def _canonical_drums(ps, table):
  """First listed pitch of every drum type of `table` that `ps` touches."""
  return frozenset(row[0] for row in table if any(p in row for p in ps))


def _popcount(i):
  return bin(i).count('1')


def h_melody(c):
  med = c.mod('melody_encoder_decoder')
  lo = c.int('min_note', 0, 127)
  hi = c.int('max_note', 1, 128)
  c.assume(lo < hi)
  other = med.MelodyOneHotEncoding(48, 84)  # another object in the process
  enc = med.MelodyOneHotEncoding(lo, hi)
  n = enc.num_classes
  c.check(c.eq(n, hi - lo + 2), 'num_classes')
  c.check(other.num_classes == 38 and other.decode_event(2) == 48 and
          other.encode_event(83) == 37,
          'an encoding is not disturbed by another one with another range')
  i = c.int('index', 0, 129)
  c.assume(i < n)
  ev = enc.decode_event(i)
  c.check(c.And(ev >= -2, ev < hi, c.Or(ev < 0, ev >= lo)),
          'decoded event is valid')
  c.check(c.eq(enc.encode_event(ev), i), 'encode(decode(i)) == i')
  e = c.int('event', -5, 130)
  valid = c.And(e >= -2, e < hi, c.Or(e < 0, e >= lo))
  res, err = c.raises(enc.encode_event, e)
  if err is not None:
    c.check(isinstance(err, ValueError), 'only ValueError')
    c.check(c.Not(valid), 'valid event rejected')
    c.cover('invalid event rejected')
  else:
    c.check(valid, 'invalid event encoded')
    c.check(c.And(res >= 0, res < n), 'encode lands in [0, num_classes)')
    c.check(c.eq(enc.decode_event(res), e), 'decode(encode(e)) == e')
    c.cover('valid event')
  c.check(c.eq(enc.default_event, -2) and True, 'default event')
  # documented: 0 = no event, 1 = note-off event
  c.check(c.And(c.eq(enc.encode_event(-2), 0), c.eq(enc.encode_event(-1), 1)),
          'no-event is class 0 and note-off is class 1')
  c.check(c.eq(enc.event_to_num_steps(ev), 1),
          'event_to_num_steps defaults to one')
  c.cover('event just below min_note', c.And(e >= 0, c.eq(e, lo - 1)))
  c.cover('event equal to max_note', c.eq(e, hi))


def h_melody_ctor(c):
  med = c.mod('melody_encoder_decoder')
  lo = c.int('min_note', -3, 130)
  hi = c.int('max_note', -3, 130)
  res, err = c.raises(med.MelodyOneHotEncoding, lo, hi)
  legal = c.And(lo >= 0, hi <= 128, hi > lo)
  if err is not None:
    c.check(isinstance(err, ValueError) and c.Not(legal),
            'legal range rejected')
  else:
    c.check(legal, 'illegal range accepted')


def _perf_event_ok(c, PE, ev, nv, ms, lo, hi):
  """`ev` is one of the events the configuration has a class for."""
  t, val = ev.event_type, ev.event_value
  return c.Or(
      c.And(c.Or(c.eq(t, PE.NOTE_ON), c.eq(t, PE.NOTE_OFF)),
            val >= lo, val <= hi),
      c.And(c.eq(t, PE.TIME_SHIFT), val >= 1, val <= ms),
      c.And(c.eq(t, PE.VELOCITY), val >= 1, val <= nv))


def _perf_default_ok(c, PE, enc, n, nv, ms, lo, hi):
  de = enc.default_event
  c.check(_perf_event_ok(c, PE, de, nv, ms, lo, hi),
          'default event is an event of the configuration')
  k = enc.encode_event(de)
  c.check(c.And(k >= 0, k < n), 'default event encodes into [0, num_classes)')
  back = enc.decode_event(k)
  c.check(c.And(c.eq(back.event_type, de.event_type),
                c.eq(back.event_value, de.event_value)),
          'default event round-trips')


def h_performance(c):
  ped = c.mod('performance_encoder_decoder')
  pl = c.mod('performance_lib')
  PE = pl.PerformanceEvent
  nv = c.int('num_velocity_bins', 0, 127)
  ms = c.int('max_shift_steps', 1, 1000)
  lo = c.int('min_pitch', 0, 127)
  hi = c.int('max_pitch', 0, 127)
  c.assume(lo <= hi)
  other = ped.PerformanceOneHotEncoding(2, 3, 60, 61)
  enc = ped.PerformanceOneHotEncoding(nv, ms, lo, hi)
  n = enc.num_classes
  c.check(c.eq(n, 2 * (hi - lo + 1) + ms + nv), 'num_classes')
  c.check(other.num_classes == 9 and
          [other.decode_event(k).event_value for k in range(9)] ==
          [60, 61, 60, 61, 1, 2, 3, 1, 2],
          'an encoding is not disturbed by another one with other settings')
  i = c.int('index', 0, 2000)
  c.assume(i < n)
  ev = enc.decode_event(i)
  c.check(c.eq(enc.encode_event(ev), i), 'encode(decode(i)) == i')
  _perf_default_ok(c, PE, enc, n, nv, ms, lo, hi)
  which = c.params['etype']
  if which == PE.VELOCITY:
    c.assume(nv > 0)
    v = c.int('value', 1, 127)
    c.assume(v <= nv)
  elif which == PE.TIME_SHIFT:
    v = c.int('value', 1, 1000)
    c.assume(v <= ms)
  else:
    v = c.int('value', 0, 127)
    c.assume(c.And(v >= lo, v <= hi))
  e = PE(which, v)
  idx = enc.encode_event(e)
  c.check(c.And(idx >= 0, idx < n), 'encode lands in [0, num_classes)')
  d = enc.decode_event(idx)
  c.check(c.And(c.eq(d.event_type, which), c.eq(d.event_value, v)),
          'decode(encode(e)) == e')
  c.check(c.eq(enc.event_to_num_steps(e), v if which == PE.TIME_SHIFT else 0),
          'event_to_num_steps')


def h_performance_defaults(c):
  """Constructor defaults (0 velocity bins, DEFAULT_MAX_SHIFT_STEPS = 100 shift
  steps, pitches 0..127) and keyword names."""
  ped = c.mod('performance_encoder_decoder')
  pl = c.mod('performance_lib')
  PE = pl.PerformanceEvent
  form = c.params['form']
  cls = ped.PerformanceOneHotEncoding
  nv, ms, lo, hi = 0, 100, 0, 127
  if form == 'none':
    enc = cls()
  elif form == 'bins':
    nv = c.int('num_velocity_bins', 0, 127)
    enc = cls(num_velocity_bins=nv)
  elif form == 'shift':
    ms = c.int('max_shift_steps', 1, 1000)
    enc = cls(max_shift_steps=ms)
  elif form == 'pitch':
    lo = c.int('min_pitch', 0, 127)
    hi = c.int('max_pitch', 0, 127)
    c.assume(lo <= hi)
    enc = cls(max_pitch=hi, min_pitch=lo)
  else:
    nv = c.int('num_velocity_bins', 0, 127)
    ms = c.int('max_shift_steps', 1, 1000)
    lo = c.int('min_pitch', 0, 127)
    hi = c.int('max_pitch', 0, 127)
    c.assume(lo <= hi)
    enc = cls(max_pitch=hi, max_shift_steps=ms, min_pitch=lo,
              num_velocity_bins=nv)
  n = enc.num_classes
  c.check(c.eq(n, 2 * (hi - lo + 1) + ms + nv), 'num_classes (defaults)')
  _perf_default_ok(c, PE, enc, n, nv, ms, lo, hi)
  i = c.int('index', 0, 2000)
  c.assume(i < n)
  ev = enc.decode_event(i)
  c.check(c.eq(enc.encode_event(ev), i), 'encode(decode(i)) == i (defaults)')
  which = c.choice('etype', [PE.NOTE_ON, PE.NOTE_OFF, PE.TIME_SHIFT,
                             PE.VELOCITY])
  if which == PE.VELOCITY:
    c.assume(nv > 0)
    v = c.int('value', 1, 127)
    c.assume(v <= nv)
  elif which == PE.TIME_SHIFT:
    v = c.int('value', 1, 1000)
    c.assume(v <= ms)
  else:
    v = c.int('value', 0, 127)
    c.assume(c.And(v >= lo, v <= hi))
  idx = enc.encode_event(PE(event_type=which, event_value=v))
  c.check(c.And(idx >= 0, idx < n),
          'encode lands in [0, num_classes) (defaults)')
  d = enc.decode_event(idx)
  c.check(c.And(c.eq(d.event_type, which), c.eq(d.event_value, v)),
          'decode(encode(e)) == e (defaults)')


def h_performance_foreign(c):
  """Events of a type the configuration has no class for (DURATION; VELOCITY
  when there are no velocity bins) are not valid events of the encoding: they
  must be rejected, not silently given the class of some other event."""
  ped = c.mod('performance_encoder_decoder')
  pl = c.mod('performance_lib')
  PE = pl.PerformanceEvent
  ms = c.int('max_shift_steps', 1, 1000)
  lo = c.int('min_pitch', 0, 127)
  hi = c.int('max_pitch', 0, 127)
  c.assume(lo <= hi)
  which = c.params['etype']
  if which == PE.VELOCITY:
    nv = 0
  else:
    nv = c.int('num_velocity_bins', 0, 127)
  enc = ped.PerformanceOneHotEncoding(nv, ms, lo, hi)
  n = enc.num_classes
  v = c.int('value', 1, 127)
  e = PE(which, v)
  res, err = c.raises(enc.encode_event, e)
  if err is None:
    ok = False
    if res is not None:
      d, err2 = c.raises(enc.decode_event, res)
      if err2 is None:
        ok = c.And(res >= 0, res < n, c.eq(d.event_type, which),
                   c.eq(d.event_value, v))
    c.check(ok, 'an event type without classes is rejected')
  else:
    c.cover('foreign event rejected')


def h_event_validator(c):
  """PerformanceEvent validates its contents: pitches 0..127, shifts >= 0,
  velocity bins 1..127, durations >= 1, types 1..5 (ValueError otherwise)."""
  pl = c.mod('performance_lib')
  PE = pl.PerformanceEvent
  t = c.int('event_type', -1, 7)
  v = c.int('event_value', -3, 1000)
  legal = c.Or(c.And(c.Or(c.eq(t, 1), c.eq(t, 2)), v >= 0, v <= 127),
               c.And(c.eq(t, 3), v >= 0),
               c.And(c.eq(t, 4), v >= 1, v <= 127),
               c.And(c.eq(t, 5), v >= 1))
  res, err = c.raises(PE, t, v)
  if err is not None:
    c.check(isinstance(err, ValueError) and c.Not(legal),
            'legal performance event rejected')
    c.cover('illegal performance event rejected')
  else:
    c.check(legal, 'illegal performance event accepted')
    c.check(c.And(c.eq(res.event_type, t), c.eq(res.event_value, v)),
            'event keeps type and value')


def h_velocity(c):
  pl = c.mod('performance_lib')
  n = c.concretize(c.int('bins', 1, 127))
  v = c.int('v', 1, 127)
  w = c.int('w', 1, 127)
  b = pl.velocity_to_bin(v, n)
  c.check(c.And(b >= 1, b <= n), 'bin in 1..num_velocity_bins')
  c.check(c.Implies(v <= w, b <= pl.velocity_to_bin(w, n)), 'binning monotone')
  back = pl.velocity_bin_to_velocity(b, n)
  c.check(c.And(back >= 1, back <= 127, back <= v), 'bin lower bound is a '
          'velocity not above the original')
  c.check(c.eq(pl.velocity_to_bin(back, n), b),
          'bin-to-velocity is a right inverse of velocity-to-bin')
  # ... on every bin 1..n, also for bin counts whose binning is not onto
  # (these bins are classes of PerformanceOneHotEncoding(num_velocity_bins=n)).
  # NOTE (not asserted, undocumented): for such bins the velocity exceeds 127,
  # e.g. velocity_bin_to_velocity(100, 100) == 199.
  b2 = c.int('bin', 1, 127)
  c.assume(b2 <= n)
  c.check(c.eq(pl.velocity_to_bin(pl.velocity_bin_to_velocity(b2, n), n), b2),
          'bin-to-velocity is a right inverse on every bin 1..n')


def h_density(c):
  pc = c.mod('performance_controls')
  nb = c.params['B']
  bs = [c.real('b%d' % i, 0) for i in range(nb)]
  for a, b in zip(bs, bs[1:]):
    c.assume(a <= b)
  cls = pc.NoteDensityPerformanceControlSignal.NoteDensityOneHotEncoding
  # a second object with other boundaries lives in the same process
  other = cls([1.0, 5.0])
  given = list(bs)
  enc = cls(given)
  c.check(enc.num_classes == nb + 1, 'num_classes')
  c.check([other.decode_event(k) for k in range(3)] == [0.0, 1.0, 5.0] and
          other.num_classes == 3,
          'an encoding is not disturbed by another one with other boundaries')
  x = c.real('x', 0)
  i = enc.encode_event(x)
  ii = c.concretize(i)
  c.check(0 <= ii <= nb, 'encode lands in [0, num_classes)')
  d = enc.decode_event(ii)
  lower = 0 if ii == 0 else bs[ii - 1]
  c.check(c.eq(d, lower), 'decode(encode(x)) is the lower bound of the bin')
  c.check(c.And(lower <= x, c.Or(ii == nb, x < bs[min(ii, nb - 1)])
                if nb else True), 'x lies in the bin it was assigned')
  strict = c.And([bs[0] > 0] + [a < b for a, b in zip(bs, bs[1:])]) if nb else True
  j = c.concretize(c.int('j', 0, nb))
  c.check(c.Implies(strict, c.eq(enc.encode_event(enc.decode_event(j)), j)),
          'encode(decode(j)) == j for strictly increasing boundaries')
  if nb:
    c.cover('event exactly on a boundary', c.eq(x, bs[0]))
  c.check([other.encode_event(q) for q in (0.0, 0.5, 1.0, 3.0, 5.0, 7.5)] ==
          [0, 0, 1, 1, 2, 2],
          'the other encoding still bins with its own boundaries')
  _density_default_ok(c, enc, bs)
  c.check(c.eq(enc.event_to_num_steps(x), 1),
          'event_to_num_steps defaults to one')
  c.check(len(given) == nb and c.And([c.eq(g, b) for g, b in zip(given, bs)]
                                     + [True]),
          'boundary list left unmodified')


def _in_bin(c, bs, k, x):
  """x lies in bin k of the boundaries bs (bin 0 starts at zero)."""
  nb = len(bs)
  conds = [True]
  if k > 0:
    conds.append(bs[k - 1] <= x)
  if k < nb:
    conds.append(x < bs[k])
  return c.And(conds)


def _density_default_ok(c, enc, bs):
  d = enc.default_event
  k = c.concretize(enc.encode_event(d))
  c.check(0 <= k <= len(bs), 'default event encodes into [0, num_classes)')
  c.check(c.And(d >= 0, _in_bin(c, bs, k, d)),
          'default event lies in the bin it was assigned')


def h_density_signal(c):
  """The encoding as obtained from the public control signal object."""
  pc = c.mod('performance_controls')
  nb = c.params['B']
  bs = [c.real('b%d' % i, 0) for i in range(nb)]
  for a, b in zip(bs, bs[1:]):
    c.assume(a <= b)
  ws = c.real('window_size_seconds', 0)
  given = list(bs)
  other = pc.NoteDensityPerformanceControlSignal(3.0, [1.0, 5.0])
  sig = pc.NoteDensityPerformanceControlSignal(
      density_bin_ranges=given, window_size_seconds=ws)
  e = sig.encoder
  c.check(e.num_classes == nb + 1,
          'signal encoder has one class more than boundaries')
  x = c.real('x', 0)
  k = c.concretize(e.events_to_label([0.0, x], 1))
  c.check(0 <= k <= nb, 'label lands in [0, num_classes)')
  c.check(_in_bin(c, bs, k, x), 'x lies in the bin of its label')
  c.check(c.eq(e.class_index_to_event(k, []), 0 if k == 0 else bs[k - 1]),
          'label decodes to the lower bound of the bin')
  oe = other.encoder
  c.check(oe.num_classes == 3 and
          [oe.events_to_label([q], 0) for q in (0.5, 3.0, 7.5)] == [0, 1, 2]
          and [oe.class_index_to_event(j, []) for j in range(3)] ==
          [0.0, 1.0, 5.0],
          'a signal is not disturbed by another one with other boundaries')
  c.check(len(given) == nb and c.And([c.eq(g, b) for g, b in zip(given, bs)]
                                     + [True]),
          'boundary list left unmodified')


def h_drums_decode(c):
  ded = c.mod('drums_encoder_decoder')
  enc = ded.MultiDrumOneHotEncoding()
  n = enc.num_classes
  c.check(n == 512, 'num_classes')
  lo, hi = c.params['range']
  i = c.int('index', lo, hi)
  ev = enc.decode_event(i)
  c.check(c.eq(enc.encode_event(ev), i), 'encode(decode(i)) == i')
  c.check(all(p == enc._drum_map[enc._inverse_drum_map[p]][0] for p in ev),
          'decoded pitches are the canonical pitch of their drum type')
  iv = c.concretize(i)
  firsts = [row[0] for row in _DRUMS]
  c.check(isinstance(ev, frozenset) and len(ev) == _popcount(iv) and
          all(p in firsts for p in ev),
          'one pitch per set bit, each the first pitch of a documented drum '
          'type')
  c.check(enc.event_to_num_steps(ev) == 1,
          'event_to_num_steps defaults to one')
  if iv == lo:
    c.check(enc.encode_event(frozenset()) == 0 and
            enc.decode_event(0) == frozenset(),
            'no drum type present <-> no bit set')
    d = enc.default_event
    k, derr = c.raises(enc.encode_event, d)
    c.check(derr is None and 0 <= k < 512 and
            enc.decode_event(k) == _canonical_drums(d, _DRUMS),
            'default event is encodable and round-trips')


def h_drums_encode(c):
  ded = c.mod('drums_encoder_decoder')
  enc = ded.MultiDrumOneHotEncoding()
  table = sorted(set(enc._inverse_drum_map) |
                 set(p for row in _DRUMS for p in row)) + [0, 127]
  k = c.params['K']
  sub = table[c.params['lo']:c.params['hi']]
  rest = table[::c.params.get('step', 1)]
  if c.params.get('step', 1) > 1:
    rest = rest + [0, 35, 37]
  ps = [c.choice('p%d' % j, rest if j else sub) for j in range(k)]
  ev = frozenset(ps)
  idx = enc.encode_event(ev)
  c.check(0 <= idx < 512, 'encode lands in [0, num_classes)')
  types = set(enc._inverse_drum_map[p] for p in ps if p in enc._inverse_drum_map)
  c.check(enc.decode_event(idx) == frozenset(enc._drum_map[t][0] for t in types),
          'decode(encode(e)) = canonical pitches of the same drum classes')
  strict = ded.MultiDrumOneHotEncoding(ignore_unknown_drums=False)
  res, err = c.raises(strict.encode_event, ev)
  unknown = any(p not in enc._inverse_drum_map for p in ps)
  c.check((err is not None and isinstance(err, ded.DrumsEncodingError))
          if unknown else (err is None and res == idx),
          'unknown drums raise DrumsEncodingError iff not ignored')
  # the documented table, not the object's own maps, as the oracle
  canon = _canonical_drums(ps, _DRUMS)
  c.check(_popcount(idx) == len(canon),
          'one bit per documented drum type present')
  c.check(enc.decode_event(idx) == canon,
          'decode(encode(e)) = first pitch of each documented drum type of e')
  c.check(unknown == any(all(p not in row for row in _DRUMS) for p in ps),
          'unknown pitches are those outside the documented table')
  sd, serr = c.raises(strict.decode_event, idx)
  c.check(strict.num_classes == 512 and serr is None and sd == canon,
          'strict encoding has the same classes')
  again, aerr = c.raises(enc.encode_event, ev)
  c.check(aerr is None and again == idx and enc.num_classes == 512,
          'an encoding is not disturbed by a second drum encoding')


def h_drums_custom(c):
  """drum_type_pitches given by the caller (also as keyword)."""
  ded = c.mod('drums_encoder_decoder')
  first = ded.MultiDrumOneHotEncoding()
  tab = _CUSTOM_DRUMS[c.params['table']]
  given = [list(r) for r in tab]
  ignore = c.params['ignore']
  enc = ded.MultiDrumOneHotEncoding(drum_type_pitches=given,
                                    ignore_unknown_drums=ignore)
  nt = len(tab)
  n = enc.num_classes
  c.check(n == 2 ** nt, 'one class per set of drum types (custom table)')
  lo, hi = c.params.get('range', [0, 2 ** nt - 1])
  i = c.int('index', lo, hi)
  ev = enc.decode_event(i)
  iv = c.concretize(i)
  c.check(c.eq(enc.encode_event(ev), i), 'encode(decode(i)) == i (custom)')
  c.check(len(ev) == _popcount(iv) and
          all(p in [r[0] for r in tab] for p in ev),
          'one pitch per set bit, each the first pitch of a given drum type')
  if iv % 64 == 0:
    pool = sorted(set(p for r in tab for p in r)) + [0, 38, 127]
    ps = [c.choice('p%d' % j, pool) for j in range(2)]
    e = frozenset(ps)
    unknown = any(all(p not in r for r in tab) for p in ps)
    res, err = c.raises(enc.encode_event, e)
    if unknown and not ignore:
      c.check(err is not None and isinstance(err, ded.DrumsEncodingError),
              'unknown drums raise DrumsEncodingError iff not ignored (custom)')
    else:
      canon = _canonical_drums(ps, tab)
      c.check(err is None and 0 <= res < n and _popcount(res) == len(canon),
              'encode lands in [0, num_classes) (custom)')
      c.check(enc.decode_event(res) == canon,
              'decode(encode(e)) = first pitch of each given drum type of e')
    c.check(given == [list(r) for r in tab], 'drum table left unmodified')
    c.check(first.num_classes == 512 and
            first.decode_event(first.encode_event(frozenset([35, 40, 62, 21])))
            == frozenset([36, 38, 50]),
            'the default encoding is not disturbed by a custom one')


def h_chords_decode(c):
  ced = c.mod('chords_encoder_decoder')
  cs = c.mod('chord_symbols_lib')
  enc = (ced.TriadChordOneHotEncoding() if c.params['triad'] else
         ced.MajorMinorChordOneHotEncoding())
  n = enc.num_classes
  c.check(n == (49 if c.params['triad'] else 25), 'num_classes')
  i = c.int('index', 0, n - 1)
  ev = enc.decode_event(i)
  c.check(c.eq(enc.encode_event(ev), i), 'encode(decode(i)) == i')
  # documented layout: 0 no chord, 1-12 major (1 is C, 2 is C#, ...), 13-24
  # minor, 25-36 augmented, 37-48 diminished
  iv = c.concretize(i)
  if iv == 0:
    c.check(ev == 'N.C.', 'class 0 is no-chord')
  else:
    quals = [cs.CHORD_QUALITY_MAJOR, cs.CHORD_QUALITY_MINOR,
             cs.CHORD_QUALITY_AUGMENTED, cs.CHORD_QUALITY_DIMINISHED]
    c.check(ev != 'N.C.' and _root_pc(ev) == (iv - 1) % 12 and
            cs.chord_symbol_quality(ev) == quals[(iv - 1) // 12],
            'class index is root + 1 + 12 * triad quality (documented layout)')
  c.check(enc.event_to_num_steps(ev) == 1,
          'event_to_num_steps defaults to one')
  d = enc.default_event
  k, derr = c.raises(enc.encode_event, d)
  c.check(derr is None and 0 <= k < n and enc.decode_event(k) == d,
          'default event is encodable and round-trips')


def h_chords_encode(c):
  ced = c.mod('chords_encoder_decoder')
  cs = c.mod('chord_symbols_lib')
  fig = c.params['figure']
  for enc, quals in ((ced.MajorMinorChordOneHotEncoding(), (0, 1)),
                     (ced.TriadChordOneHotEncoding(), (0, 1, 2, 3))):
    try:
      root = cs.chord_symbol_root(fig)
      qual = cs.chord_symbol_quality(fig)
    except cs.ChordSymbolError:
      c.cover('grid symbol rejected by the parser')
      return
    res, err = c.raises(enc.encode_event, fig)
    if qual in quals:
      c.check(err is None and 0 <= res < enc.num_classes,
              'encode lands in [0, num_classes)')
      back = enc.decode_event(res)
      c.check(cs.chord_symbol_root(back) == root and
              cs.chord_symbol_quality(back) == qual,
              'decode(encode(chord)) has the same root and triad quality')
      blocks = [cs.CHORD_QUALITY_MAJOR, cs.CHORD_QUALITY_MINOR,
                cs.CHORD_QUALITY_AUGMENTED, cs.CHORD_QUALITY_DIMINISHED]
      c.check(res == _root_pc(fig) + 1 + 12 * blocks.index(qual),
              'class index is root + 1 + 12 * triad quality (documented '
              'layout)')
      c.cover('encodable chord')
    else:
      c.check(err is not None and isinstance(err, ced.ChordEncodingError),
              'other qualities raise ChordEncodingError')
      c.cover('non-triad chord rejected')
  c.check(enc.encode_event('N.C.') == 0 and enc.decode_event(0) == 'N.C.',
          'no-chord is class 0')


HARNESSES = {
    'h_melody': h_melody,
    'h_melody_ctor': h_melody_ctor,
    'h_performance': h_performance,
    'h_velocity': h_velocity,
    'h_density': h_density,
    'h_drums_decode': h_drums_decode,
    'h_drums_encode': h_drums_encode,
    'h_performance_defaults': h_performance_defaults,
    'h_performance_foreign': h_performance_foreign,
    'h_event_validator': h_event_validator,
    'h_density_signal': h_density_signal,
    'h_drums_custom': h_drums_custom,
    'h_chords_decode': h_chords_decode,
    'h_chords_encode': h_chords_encode,
}

_ROOTS = [s + a for s in 'ABCDEFG' for a in ('', '#', 'b', '##', 'bb')]
_KINDS = ['', 'm', '+', 'dim', '7', 'maj7', 'm7', 'sus', '5', 'm7b5', 'aug7',
          '6', 'm6', '9', 'mMaj7', 'o7']
# other spellings of the chord grammar (quick tier: one root each)
_KINDS2 = ['maj', 'min', 'M', '-', 'aug', 'sus4', 'add9', '13', 'M7', 'min7',
           '7(b9)', 'm(maj7)', 'dim7', '+7', '7#5', 'mb5', '(b5)', 'maj(#5)']


def jobs(tier):
  J = []

  def add(h, budget=200, required=True, **params):
    J.append({'harness': h, 'params': params, 'budget_s': budget,
              'required': required})

  deep = tier == 'thorough'
  add('h_melody')
  add('h_melody_ctor')
  for et in (1, 2, 3, 4):
    add('h_performance', etype=et)
  add('h_velocity', budget=400)
  for b in (0, 1, 2, 3):
    add('h_density', B=b)
  for lo in range(0, 512, 64):
    add('h_drums_decode', range=[lo, lo + 63])
  add('h_drums_encode', K=1, lo=0, hi=70)
  for lo in range(0, 63, 8):
    # all pairs of pitches (two pitches of one drum class set one bit)
    add('h_drums_encode', K=2, lo=lo, hi=lo + 8, budget=900)
  add('h_chords_decode', triad=False)
  add('h_chords_decode', triad=True)
  n = 0
  for r in _ROOTS:
    for kd in _KINDS:
      n += 1
      if deep or n % 9 == 0:
        add('h_chords_encode', figure=r + kd + ('/' + _ROOTS[(n * 3) % 35]
                                                if n % 4 == 0 else ''))
  for n2, kd in enumerate(_KINDS2):
    for r in (_ROOTS if deep else [_ROOTS[(n2 * 7 + 3) % 35]]):
      add('h_chords_encode', figure=r + kd)
  for form in ('none', 'bins', 'shift', 'pitch', 'all'):
    add('h_performance_defaults', form=form)
  for et in (4, 5):
    add('h_performance_foreign', etype=et)
  add('h_event_validator')
  for b in (0, 1, 2, 3):
    add('h_density_signal', B=b)
  add('h_drums_custom', table='small', ignore=True)
  add('h_drums_custom', table='small', ignore=False)
  for lo in range(0, 1024, 256):
    add('h_drums_custom', table='big', ignore=True, range=[lo, lo + 255])
  for lo in range(0, 65, 8):
    # triples: first pitch sweeps the table, the others a thinned table
    add('h_drums_encode', K=3, lo=lo, hi=lo + 8, step=5, budget=900)
  if deep:
    add('h_density', B=4, budget=900)
    for lo in range(0, 63, 4):
      add('h_drums_encode', K=3, lo=lo, hi=lo + 4, budget=1800)
  return J
