"""C07 -- event extraction captures the quantized music it is given, step for
step."""
from fractions import Fraction

from props import common as K

META = {
    'level': 'model_checking',
    'level_text':
        'Every extractor (Performance, MetricPerformance, NotePerformance, '
        'PianorollSequence, DrumTrack, ChordProgression, Melody) runs on '
        'symbolic quantized NoteSequences built directly on the protobuf shim '
        '(steps, pitches, velocities, instruments, drum flags symbolic; the '
        'list-indexed extractors close the step domain by solver-driven '
        'forking) and on every path the solver compares the result with a '
        'declarative per-step specification written independently in the '
        'harness. Performances keep steps fully symbolic (no bound on the step '
        'values).',
    'level_note':
        'Trusted: z3 (integers), symproto and np-lite (validated per sampled '
        'path on upb/numpy). Precondition of the property (no two notes of one '
        'pitch overlap) is assumed. Melody\'s start bar is anchored at the '
        'first note of the instrument before drum/zero-velocity filtering (the '
        'oracle follows the code on this reading question).',
    'functions': [
        ('performance_lib', 'BasePerformance._from_quantized_sequence'),
        ('performance_lib', 'NotePerformance._from_quantized_sequence'),
        ('performance_lib', 'velocity_to_bin'),
        ('performance_lib', '_program_and_is_drum_from_sequence'),
        ('performance_lib', 'BasePerformance.__init__'),
        ('performance_lib', 'Performance.__init__'),
        ('performance_lib', 'MetricPerformance.__init__'),
        ('performance_lib', 'NotePerformance.__init__'),
        ('pianoroll_lib', 'PianorollSequence._from_quantized_sequence'),
        ('pianoroll_lib', 'PianorollSequence.__init__'),
        ('pianoroll_lib', 'PianorollSequence.append'),
        ('drums_lib', 'DrumTrack.from_quantized_sequence'),
        ('chords_lib', 'ChordProgression.from_quantized_sequence'),
        ('chords_lib', 'ChordProgression._add_chord'),
        ('chords_lib', 'event_list_chords'),
        ('melodies_lib', 'Melody.from_quantized_sequence'),
        ('melodies_lib', 'Melody._add_note'),
        ('melodies_lib', 'Melody._get_last_on_off_events'),
        ('sequences_lib', 'steps_per_bar_in_quantized_sequence'),
    ],
    'assumptions': [
        'no two notes of one pitch overlap (property precondition)',
        'quantized start/end steps with start < end; note times in seconds '
        'consistent with the steps (start_time = step / steps_per_second)',
        'performances: the sequence ends at most 3 (quick N=2: 2) '
        '*max_shift_steps after the '
        'start step (bounds the shift-splitting loop); step values themselves '
        'are unbounded',
        'list-indexed extractors: steps within [0, S] (S = 6..7 quick, 9 '
        'thorough), closed by forking',
        'exactly one time signature per sequence',
        'event_list_chords: every chord annotation lies inside the sequence '
        '(step < total_quantized_steps >= 1)',
        'default pianoroll window 21..108: note pitches within 2 of either end '
        'of the window',
    ],
    'bounds': {
        'quick': 'N<=2 notes with symbolic steps (also N=0); performances '
                 'additionally N=3 '
                 'on concrete step patterns with symbolic velocities, '
                 'pitches, instruments (up to 3) and start step; steps <= 7 for '
                 'melody/drums/chords/pianoroll; meters 4/4, 2/4, 3/4, 6/8 '
                 '(3/8 as the rejected case) at 1..2 steps per quarter; '
                 'metric performances at 2, 3, 4 steps per quarter, absolute at '
                 '50 / 100 steps per second; gap_bars 0..2; K<=3 chords; every '
                 'extractor also called with its defaults only, on a used '
                 'object (DrumTrack / Melody / ChordProgression), with the '
                 'wrong kind of quantization, and the performances / pianoroll '
                 'built without a sequence',
        'thorough': 'N<=3; steps <= 9; more parameter combinations',
    },
    'outside': ['more notes than the bounds', 'meters other than the listed '
                'ones', 'several / no time signatures',
                'rendering back with to_sequence (C06)',
                'the order of note events inside one step of a performance',
                'midi_file_to_melody / midi_file_to_drum_track (file input)',
                'object state after a raised error'],
}

NO_EVENT, NOTE_OFF = -2, -1

_PATTERNS3_SHORT = [
    [[0, 2], [2, 4], [4, 5]],
    [[0, 4], [1, 2], [2, 3]],
    [[0, 1], [0, 2], [6, 7]],
    [[1, 3], [1, 2], [2, 7]],
]

# (start, end) step patterns for three notes: chained overlaps, nesting,
# abutting, a long gap, simultaneous onsets
_PATTERNS3 = [
    [[0, 2], [1, 4], [3, 5]],
    [[0, 5], [1, 2], [3, 4]],
    [[0, 2], [2, 4], [4, 6]],
    [[0, 1], [0, 3], [40, 41]],
    [[0, 3], [1, 3], [3, 4]],
    [[2, 3], [0, 6], [1, 5]],
]


def _qseq(c, N, smax, relative=True, spq=1, sps=100, ts=(4, 4), pitch=(58, 62),
          unbounded=False, instruments=(0, 1), vel=(0, 127), steps=None,
          no_overlap=True):
  """A quantized NoteSequence built directly on the message classes."""
  # (N may be 0: the empty quantized sequence)
  pb = c.pb
  ns = pb.NoteSequence()
  if relative:
    ns.quantization_info.steps_per_quarter = spq
    ns.tempos.add(qpm=120)
    per_sec = Fraction(spq * 2) if c.mode == 'sym' else spq * 2.0
  else:
    ns.quantization_info.steps_per_second = sps
    per_sec = Fraction(sps) if c.mode == 'sym' else float(sps)
  ns.time_signatures.add(numerator=ts[0], denominator=ts[1])
  notes = []
  for i in range(N):
    if steps is not None:
      # concrete step pattern (velocities, pitches, instruments stay symbolic)
      qs, qe = steps[i]
    else:
      qs = c.int('n%d_qs' % i, 0, None if unbounded else smax - 1)
      qe = c.int('n%d_qe' % i, 1, None if unbounded else smax)
      c.assume(qs < qe)
    p = c.int('n%d_p' % i, pitch[0], pitch[1])
    v = c.int('n%d_v' % i, vel[0], vel[1])
    ins = c.int('n%d_i' % i, instruments[0], instruments[1])
    d = c.bool('n%d_d' % i)
    g = c.int('n%d_g' % i, 0, 5)
    ns.notes.add(pitch=p, velocity=v, quantized_start_step=qs,
                 quantized_end_step=qe, start_time=qs / per_sec,
                 end_time=qe / per_sec, instrument=ins, is_drum=d,
                 program=g)
    notes.append(dict(qs=qs, qe=qe, p=p, v=v, i=ins, d=d, g=g))
  for a in range(N):
    for b in range(a + 1, N):
      if not no_overlap:
        break
      A, B = notes[a], notes[b]
      c.assume(c.Or(c.Not(c.eq(A['p'], B['p'])), A['qe'] <= B['qs'],
                    B['qe'] <= A['qs']))
  tq = c.int('tq', 0, None if unbounded else (
      smax if steps is None else max(e for _, e in steps) + 1))
  for n in notes:
    c.assume(n['qe'] <= tq)
  ns.total_quantized_steps = tq
  return ns, notes, tq


def _vbin(v, nbins):
  """Velocity bin, written from the documentation and independent of the
  library's helper: equal-width bins over the 127 MIDI velocities 1..127, width
  ceil(127 / nbins), bins numbered from 1; 0 when velocities are not used."""
  if not nbins:
    return 0
  width = -(-127 // nbins)
  return (v - 1) // width + 1


def _check_prog_drum(c, perf, notes, instrument):
  """program / drum flag of a performance: those of the selected instrument's
  notes (all notes of that instrument count, also the ones before
  start_step)."""
  N = len(notes)
  sel = [True if instrument is None else c.eq(n['i'], instrument)
         for n in notes]
  all_drum = c.And([c.Implies(s_, n['d']) for s_, n in zip(sel, notes)]
                   or [True])
  none_drum = c.And([c.Implies(s_, c.Not(n['d'])) for s_, n in zip(sel, notes)]
                    or [True])
  c.check(c.If(all_drum, perf.is_drum is True,
               c.If(none_drum, perf.is_drum is False, perf.is_drum is None)),
          'is_drum = the drum flag shared by the selected instrument\'s notes')
  one_prog = c.And([c.Implies(c.And(sel[a], sel[b]),
                              c.eq(notes[a]['g'], notes[b]['g']))
                    for a in range(N) for b in range(a + 1, N)] or [True])
  want_prog = c.And(c.Not(all_drum), none_drum, one_prog)
  if perf.program is None:
    c.check(c.Not(want_prog), 'program lost although the selected '
            'instrument\'s notes share one program')
  else:
    c.check(c.And([want_prog] + [c.Implies(s_, c.eq(perf.program, n['g']))
                                 for s_, n in zip(sel, notes)]),
            'program = the program of the selected instrument\'s notes')


def _prepopulate(c, obj, kind):
  """Runs a first extraction on `obj` (a DrumTrack / Melody /
  ChordProgression) from an unrelated concrete sequence, so that the extraction
  under test starts from a used object: from_quantized_sequence documents
  'populate self from the given sequence', i.e. nothing of an earlier
  extraction may survive."""
  pb = c.pb
  pre = pb.NoteSequence()
  pre.quantization_info.steps_per_quarter = 3
  pre.time_signatures.add(numerator=4, denominator=4)
  pre.tempos.add(qpm=120)
  for ins in (0, 1, 2):
    pre.notes.add(pitch=40 + ins, velocity=90, quantized_start_step=14,
                  quantized_end_step=17, start_time=14 / 6.0,
                  end_time=17 / 6.0, instrument=ins, is_drum=(kind == 'drums'))
  pre.text_annotations.add(
      text='F', quantized_step=0,
      annotation_type=pb.NoteSequence.TextAnnotation.CHORD_SYMBOL)
  pre.total_quantized_steps = 17
  if kind == 'drums':
    obj.from_quantized_sequence(pre)
  elif kind == 'melody':
    obj.from_quantized_sequence(pre, 0, c.params.get('instrument', 0))
  else:
    obj.from_quantized_sequence(pre, 3, 12)
  assert len(obj) > 0 and obj.start_step > 0


# ---------------------------------------------------------------------------
# performances


def _check_perf_events(c, pl, events, notes, start, ms, nbins, instrument):
  PE = pl.PerformanceEvent
  step = start
  ons, offs = [], []
  cur_bin = 0
  shifts_ok = []
  at = []  # (event is a note-on/off, step at which the event happens)
  for e in events:
    at.append((e.event_type in (PE.NOTE_ON, PE.NOTE_OFF), step))
    if e.event_type == PE.TIME_SHIFT:
      shifts_ok.append(c.And(e.event_value >= 1, e.event_value <= ms))
      step = step + e.event_value
    elif e.event_type == PE.VELOCITY:
      cur_bin = e.event_value
    elif e.event_type == PE.NOTE_ON:
      ons.append((e.event_value, step, cur_bin))
    elif e.event_type == PE.NOTE_OFF:
      offs.append((e.event_value, step))
  c.check(c.And(shifts_ok or [True]),
          'every time shift lies in 1..max_shift_steps')
  sel = [c.And(n['qs'] >= start,
               True if instrument is None else c.eq(n['i'], instrument))
         for n in notes]

  def vbin(v):
    return _vbin(v, nbins)

  exp_on = [(s, (n['p'], n['qs'], vbin(n['v']))) for s, n in zip(sel, notes)]
  exp_off = [(s, (n['p'], n['qe'])) for s, n in zip(sel, notes)]
  c.check(K.multiset_eq(c, ons, exp_on),
          'note-ons = selected notes (pitch, start step, velocity bin)')
  c.check(K.multiset_eq(c, offs, exp_off),
          'note-offs = selected notes (pitch, end step)')
  last = c.Max([start] + [c.If(s, n['qe'], start) for s, n in zip(sel, notes)])
  c.check(c.eq(step, last), 'time shifts sum to the elapsed steps')
  return at, last


def h_performance(c):
  pl = c.mod('performance_lib')
  N = c.params['N']
  nbins = c.params['bins']
  kind = c.params['kind']
  relative = kind == 'metric'
  pattern = c.params.get('steps')
  spq = c.params.get('spq', 4)
  sps = c.params.get('sps', 100)
  ins_hi = c.params.get('ins_hi', 1 if pattern is None else 0)
  ns, notes, tq = _qseq(c, N, None, relative=relative, spq=spq, sps=sps,
                        unbounded=pattern is None, vel=(1, 127),
                        instruments=(0, ins_hi),
                        steps=pattern,
                        pitch=tuple(c.params.get('pitch', (58, 62))))
  if pattern is None:
    start = c.int('start', 0, None)
  elif c.params.get('start_hi'):
    start = c.int('start', 0, c.params['start_hi'])
  else:
    start = 0
  instrument = c.params.get('instrument')
  call = c.params.get('call', 'explicit')
  # 'given': program / is_drum passed next to a sequence are documented as
  # ignored (the values below never describe the notes: programs are 0..5)
  extra = dict(program=7, is_drum=c.bool('given_drum')) \
      if call == 'given' else {}
  before = c.snapshot(ns)
  if call == 'defaults':
    # only the sequence: start_step=0, num_velocity_bins=0, all instruments,
    # max_shift_steps=100 (absolute) / max_shift_quarters=4 (metric)
    assert nbins == 0 and instrument is None
    c.assume(c.eq(start, 0))
    ms = 4 * spq if relative else 100
    c.assume(tq <= start + c.params.get('loops', 3) * ms)
    perf = pl.MetricPerformance(ns) if relative else pl.Performance(ns)
  elif relative:
    ms = c.params['msq'] * spq
    c.assume(tq <= start + c.params.get('loops', 3) * ms)
    perf = pl.MetricPerformance(ns, start_step=start, num_velocity_bins=nbins,
                                max_shift_quarters=c.params['msq'],
                                instrument=instrument, **extra)
  else:
    ms = c.int('ms', 1, 1000)
    # the shift-splitting loop runs (gap // max_shift_steps) times: bound it
    c.assume(tq <= start + c.params.get('loops', 3) * ms)
    perf = pl.Performance(ns, start_step=start, num_velocity_bins=nbins,
                          max_shift_steps=ms, instrument=instrument, **extra)
  at, last = _check_perf_events(c, pl, list(perf), notes, start, ms, nbins,
                                instrument)
  c.check(c.eq(perf.start_step, start), 'start step kept')
  # program / drum flag: those of the selected instrument's notes (all notes
  # of that instrument count, also the ones before start_step)
  _check_prog_drum(c, perf, notes, instrument)
  # attributes of the result
  c.check(c.eq(perf.max_shift_steps, ms),
          'max_shift_steps attribute = the limit in steps')
  if relative:
    c.check(c.eq(perf.steps_per_quarter, spq),
            'resolution attribute = the sequence\'s')
  else:
    c.check(c.eq(perf.steps_per_second, sps),
            'resolution attribute = the sequence\'s')
  c.check(c.And(c.eq(perf.num_steps, last - start), c.eq(perf.end_step, last)),
          'num_steps / end_step = the elapsed steps')
  st = perf.steps
  c.check(len(st) == len(at) and
          bool(c.And([c.eq(x, w) for x, (is_note, w) in zip(st, at) if is_note]
                     or [True])),
          'steps lists the step of every note-on / note-off event')
  c.check(c.msg_eq(ns, before), 'input sequence not modified')
  if N >= 2:
    c.cover('abutting notes of one pitch',
            c.And(c.eq(notes[0]['p'], notes[1]['p']),
                  c.eq(notes[0]['qe'], notes[1]['qs'])))
    c.cover('a gap longer than max_shift_steps',
            notes[1]['qs'] > notes[0]['qe'] + 2 * ms)


def h_noteperf(c):
  pl = c.mod('performance_lib')
  PE = pl.PerformanceEvent
  N = c.params['N']
  nbins = c.params['bins']
  sps = c.params.get('sps', 100)
  ns, notes, tq = _qseq(c, N, None, relative=False, sps=sps, unbounded=True,
                        vel=(1, 127),
                        instruments=(0, c.params.get('ins_hi', 0)))
  before = c.snapshot(ns)
  if c.params.get('call') == 'defaults':
    # only the two required arguments: instrument=0, start_step=0, both
    # limits 1000
    instrument, start, ms, md = 0, 0, 1000, 1000
    res, err = c.raises(pl.NotePerformance, ns, nbins)
  else:
    ms = c.int('ms', 1, 1000)
    md = c.int('md', 1, 1000)
    instrument = c.params.get('instrument', 0)
    start = c.int('start', 0, None) if c.params.get('sym_start') else 0
    res, err = c.raises(pl.NotePerformance, ns, nbins, instrument, start, ms,
                        md)
  # selected: notes of the instrument (None = all) starting at / after start
  sel = [c.And(n['qs'] >= start,
               True if instrument is None else c.eq(n['i'], instrument))
         for n in notes]
  # expected: notes in (start, pitch) order; errors for too long shifts/durs
  order = sorted(range(N), key=lambda i: (notes[i]['qs'], notes[i]['p']))
  cur = start
  too_shift = []
  too_dur = []
  for i in order:
    too_shift.append(c.And(sel[i], notes[i]['qs'] - cur > ms))
    too_dur.append(c.And(sel[i], notes[i]['qe'] - notes[i]['qs'] > md))
    cur = c.If(sel[i], notes[i]['qs'], cur)
  bad = c.Or(too_shift + too_dur)
  if err is not None:
    c.check(isinstance(err, (pl.TooManyTimeShiftStepsError,
                             pl.TooManyDurationStepsError)),
            'only the documented errors')
    c.check(bad, 'raised although every shift and duration fits')
    c.cover('too long shift or duration rejected')
    return
  c.check(c.Not(bad), 'too long shift/duration accepted')
  evs = list(res)
  c.check(c.eq(len(evs), c.Count(sel)), 'one event tuple per note')
  step = start
  got = []
  for t in evs:
    c.check(len(t) == 4 and
            [x.event_type for x in t] == [PE.TIME_SHIFT, PE.NOTE_ON,
                                          PE.VELOCITY, PE.DURATION],
            'tuple = (TIME_SHIFT, NOTE_ON, VELOCITY, DURATION)')
    step = step + t[0].event_value
    got.append((t[1].event_value, step, step + t[3].event_value,
                t[2].event_value))
    c.check(c.And(t[0].event_value >= 0, t[0].event_value <= ms,
                  t[3].event_value >= 1, t[3].event_value <= md),
            'shift and duration within their limits')
  exp = [(s_, (n['p'], n['qs'], n['qe'], _vbin(n['v'], nbins)))
         for s_, n in zip(sel, notes)]
  c.check(K.multiset_eq(c, got, exp),
          'tuples = notes (pitch, start, end, velocity bin)')
  # attributes of the result
  c.check(c.And(c.eq(res.start_step, start),
                c.eq(res.steps_per_second, sps),
                c.eq(res.max_shift_steps, ms)),
          'start_step / steps_per_second / max_shift_steps attributes')
  st = res.steps
  c.check(len(st) == len(got) and
          bool(c.And([c.eq(x, g[1]) for x, g in zip(st, got)] or [True])),
          'steps lists the start step of every tuple')
  _check_prog_drum(c, res, notes, instrument)
  c.check(c.msg_eq(ns, before), 'input sequence not modified')
  c.cover('accepted')
  if N >= 2 and c.params.get('ins_hi'):
    c.cover('a note of another instrument skipped',
            c.And(c.Not(sel[0]), sel[1], notes[0]['qs'] >= start))


# ---------------------------------------------------------------------------
# pianoroll


def h_pianoroll(c):
  pr = c.mod('pianoroll_lib')
  N, S = c.params['N'], c.params['S']
  split = c.params['split']
  spq = c.params.get('spq', 1)
  defaults = c.params.get('call') == 'defaults'
  # default window: the piano range 21..108 of the documentation
  lo, hi = (21, 108) if defaults else tuple(c.params.get('window', (59, 61)))
  ns, notes, tq = _qseq(c, N, S, relative=True, spq=spq,
                        pitch=(lo - 1, hi + 1))
  wide = hi - lo > 4
  if wide:
    # keep the notes near the two ends of the window (the per-pitch loop below
    # then only needs the border pitches)
    for n in notes:
      c.assume(c.Or(n['p'] <= lo + 1, n['p'] >= hi - 1))
  start = c.params['start']
  c.assume(tq >= start)
  before = c.snapshot(ns)
  if defaults:
    assert start == 0 and split
    seq = pr.PianorollSequence(quantized_sequence=ns)
  else:
    seq = pr.PianorollSequence(quantized_sequence=ns, start_step=start,
                               min_pitch=lo, max_pitch=hi, split_repeats=split)
  T = c.concretize(tq) - start
  evs = list(seq)
  c.check(len(evs) == T, 'one event per step up to total_quantized_steps')
  c.check(seq.start_step == start and seq.steps_per_quarter == spq,
          'start step and resolution')
  c.check(seq.num_steps == T and seq.end_step == start + T and
          list(seq.steps) == list(range(start, start + T)),
          'num_steps / end_step / steps cover start_step..total steps')
  probe = ([lo, lo + 1, hi - 1, hi] if wide else list(range(lo, hi + 1)))
  for t in range(T):
    stp = start + t
    for p in probe:
      used = [c.And(n['qs'] >= start, c.eq(n['p'], p)) for n in notes]
      sounding = c.Or([c.And(u, n['qs'] <= stp, stp < n['qe'])
                       for u, n in zip(used, notes)])
      if split:
        before_repeat = c.Or([c.And(u, c.eq(n['qs'], stp + 1))
                              for u, n in zip(used, notes)])
        on = c.And(sounding, c.Not(before_repeat))
      else:
        on = sounding
      present = (p - lo) in evs[t]
      c.check(c.And(c.Implies(on, present), c.Implies(c.Not(on), not present)),
              'step holds exactly the sounding in-range pitches')
    c.check(list(evs[t]) == sorted(set(evs[t])), 'event is a sorted tuple')
    if wide:
      c.check(all(x in [p - lo for p in probe] for x in evs[t]),
              'no pitch offset that no note has')
  c.check(c.msg_eq(ns, before), 'input sequence not modified')
  if N >= 2:
    c.cover('abutting notes of one pitch',
            c.And(c.eq(notes[0]['p'], notes[1]['p']),
                  c.eq(notes[1]['qe'], notes[0]['qs']),
                  c.eq(notes[0]['p'], lo + 1)))
  if N >= 1:
    c.cover('note starts exactly on start_step',
            c.And(c.eq(notes[0]['qs'], start), c.eq(notes[0]['p'], lo + 1)))


# ---------------------------------------------------------------------------
# drums


def h_drums(c):
  dl = c.mod('drums_lib')
  el = c.mod('events_lib')
  N, S = c.params['N'], c.params['S']
  ts = tuple(c.params.get('ts', (4, 4)))
  spq = c.params.get('spq', 1)
  ns, notes, tq = _qseq(c, N, S, relative=True, spq=spq, ts=ts, pitch=(36, 38),
                        steps=c.params.get('steps'))
  search = c.params['search']
  gap_bars = c.params['gap']
  pad = c.params['pad']
  ign = c.params['ignore_is_drum']
  track = dl.DrumTrack()
  if c.params.get('reuse'):
    _prepopulate(c, track, 'drums')
  before = c.snapshot(ns)
  if c.params.get('call') == 'defaults':
    # only the sequence: search_start_step=0, gap_bars=1, pad_end=False,
    # ignore_is_drum=False
    assert (search, gap_bars, pad, ign) == (0, 1, False, False)
    res, err = c.raises(track.from_quantized_sequence, ns)
  else:
    res, err = c.raises(track.from_quantized_sequence, ns, search, gap_bars,
                        pad, ign)
  spb_f = Fraction(spq * 4 * ts[0], ts[1])
  if spb_f.denominator != 1:
    c.check(err is not None and isinstance(err, el.NonIntegerStepsPerBarError),
            'fractional bar rejected with NonIntegerStepsPerBarError')
    return
  c.check(err is None, 'no error for an integer bar length')
  c.check(c.msg_eq(ns, before), 'input sequence not modified')
  spb = int(spb_f)
  # declarative expectation on concretised steps
  struck = {}
  for n in notes:
    qs = c.concretize(n['qs'])
    if qs < search:
      continue
    if not (bool(n['d']) or ign):
      continue
    if bool(c.eq(n['v'], 0)):
      continue
    struck.setdefault(qs, []).append(n['p'])
  if not struck:
    c.check(len(track) == 0, 'no drums: empty track')
    c.check(track.end_step - track.start_step == 0,
            'empty track spans no steps')
    return
  steps = sorted(struck)
  t0 = steps[0] - (steps[0] - search) % spb
  kept = []
  for s in steps:
    if kept and (s - t0) - (kept[-1] - t0 + 1) >= gap_bars * spb:
      break
    kept.append(s)
  length = kept[-1] - t0 + 1
  if pad:
    length += -length % spb
  evs = list(track)
  c.check(track.start_step == t0, 'track starts at the bar of the first drum')
  c.check(len(evs) == length and track.end_step == t0 + length,
          'track ends after the last drum before a gap (padded to the bar)')
  c.check(track.steps_per_bar == spb and track.steps_per_quarter == spq,
          'resolution')
  for t in range(length):
    want = struck.get(t0 + t, []) if (t0 + t) in kept else []
    got = evs[t]
    c.check(isinstance(got, frozenset), 'drum event is a frozenset')
    c.check(len(got) <= len(want) and
            bool(c.And([c.Or([c.eq(g, w) for w in want] or [False])
                        for g in got] or [True])) and
            bool(c.And([c.Or([c.eq(g, w) for g in got] or [False])
                        for w in want] or [True])),
            'step holds exactly the drum pitches struck there')
  c.cover('gap ends the track', len(kept) < len(steps))


# ---------------------------------------------------------------------------
# chords

_FIGS = ['C', 'G7', 'Am']


def h_chords(c):
  cl = c.mod('chords_lib')
  el = c.mod('events_lib')
  pb = c.pb
  TA = pb.NoteSequence.TextAnnotation
  Kc, S = c.params['K'], c.params['S']
  ts = tuple(c.params.get('ts', (4, 4)))
  spq = c.params.get('spq', 1)
  ns = pb.NoteSequence()
  ns.quantization_info.steps_per_quarter = spq
  ns.time_signatures.add(numerator=ts[0], denominator=ts[1])
  same_text = c.params.get('same_text', False)
  chords = []
  for i in range(Kc):
    q = c.int('c%d_q' % i, 0, S)
    ty = c.int('c%d_ty' % i, 1, 2)  # CHORD_SYMBOL or BEAT
    text = _FIGS[0] if same_text else _FIGS[i]
    ns.text_annotations.add(text=text, quantized_step=q, annotation_type=ty)
    chords.append((q, ty, text))
  start, end = c.params['start'], c.params['end']
  prog = cl.ChordProgression()
  if c.params.get('reuse'):
    _prepopulate(c, prog, 'chords')
  before = c.snapshot(ns)
  res, err = c.raises(prog.from_quantized_sequence, ns, start, end)
  spb_f = Fraction(spq * 4 * ts[0], ts[1])
  if spb_f.denominator != 1:
    c.check(err is not None and isinstance(err, el.NonIntegerStepsPerBarError),
            'fractional bar rejected with NonIntegerStepsPerBarError')
    return
  real = [(c.concretize(q), t) for (q, ty, t) in chords
          if bool(c.eq(ty, TA.CHORD_SYMBOL))]
  coincident = any(q1 == q2 and t1 != t2 and start <= q1 < end
                   for i, (q1, t1) in enumerate(real)
                   for (q2, t2) in real[i + 1:])
  if coincident:
    c.check(err is not None and isinstance(err, cl.CoincidentChordsError),
            'two different chords on one step raise CoincidentChordsError')
    c.cover('coincident chords rejected')
    return
  c.check(err is None, 'no error without coincident chords')
  evs = list(prog)
  c.check(len(evs) == end - start and prog.start_step == start and
          prog.end_step == end, 'one event per step of [start, end)')
  c.check(prog.steps_per_bar == int(spb_f) and prog.steps_per_quarter == spq,
          'resolution')
  c.check(c.msg_eq(ns, before), 'input sequence not modified')
  for t in range(start, end):
    best = None
    for (q, txt) in real:
      if q <= t and (best is None or q >= best[0]):
        best = (q, txt)
    want = best[1] if best else 'N.C.'
    c.check(evs[t - start] == want, 'chord in force at every step')
  c.cover('accepted')


# ---------------------------------------------------------------------------
# melody


def h_melody(c):
  ml = c.mod('melodies_lib')
  el = c.mod('events_lib')
  N, S = c.params['N'], c.params['S']
  ts = tuple(c.params.get('ts', (4, 4)))
  spq = c.params.get('spq', 1)
  ns, notes, tq = _qseq(c, N, S, relative=True, spq=spq, ts=ts,
                        pitch=tuple(c.params.get('pitch', (60, 62))),
                        instruments=(0, c.params.get('ins_hi', 1)),
                        steps=c.params.get('steps'))
  search = c.params['search']
  gap_bars = c.params['gap']
  pad = c.params['pad']
  ign = c.params['ignore_poly']
  fdr = c.params['filter_drums']
  instrument = c.params.get('instrument', 0)
  mel = ml.Melody()
  if c.params.get('reuse'):
    _prepopulate(c, mel, 'melody')
  before = c.snapshot(ns)
  if c.params.get('call') == 'defaults':
    # only the sequence: search_start_step=0, instrument=0, gap_bars=1,
    # ignore_polyphonic_notes=False, pad_end=False, filter_drums=True
    assert (search, instrument, gap_bars, ign, pad, fdr) == (
        0, 0, 1, False, False, True)
    res, err = c.raises(mel.from_quantized_sequence, ns)
  else:
    res, err = c.raises(mel.from_quantized_sequence, ns, search, instrument,
                        gap_bars, ign, pad, fdr)
  spb_f = Fraction(spq * 4 * ts[0], ts[1])
  if spb_f.denominator != 1:
    c.check(err is not None and isinstance(err, el.NonIntegerStepsPerBarError),
            'fractional bar rejected with NonIntegerStepsPerBarError')
    return
  spb = int(spb_f)
  cand = []
  for n in notes:
    if not bool(c.eq(n['i'], instrument)):
      continue
    qs, qe = c.concretize(n['qs']), c.concretize(n['qe'])
    if qs < search:
      continue
    cand.append((qs, qe, n))
  if not cand:
    c.check(err is None and len(mel) == 0, 'no notes: empty melody')
    c.check(mel.end_step - mel.start_step == 0, 'empty melody spans no steps')
    return
  first = min(q for q, _, _ in cand)
  t0 = first - (first - search) % spb
  valid = [(qs, qe, n) for (qs, qe, n) in cand
           if not (fdr and bool(n['d'])) and not bool(c.eq(n['v'], 0))]
  groups = {}
  for qs, qe, n in valid:
    groups.setdefault(qs, []).append((qe, n))
  kept = []  # (start, end, pitch)
  poly = False
  for qs in sorted(groups):
    g = groups[qs]
    # highest pitch of the group (symbolic pitches: fold with a forking max)
    top = g[0]
    for x in g[1:]:
      if bool(x[1]['p'] > top[1]['p']):
        top = x
    if kept and qs - kept[-1][1] >= gap_bars * spb:
      break
    kept.append((qs, top[0], top[1]['p']))
    if len(g) > 1:
      poly = True
      if not ign:
        break
  if poly and not ign:
    c.check(err is not None and isinstance(err, ml.PolyphonicMelodyError),
            'two notes starting together raise PolyphonicMelodyError')
    c.cover('polyphony rejected')
    return
  c.check(err is None, 'no error for monophonic input (or ignored polyphony)')
  evs = list(mel)
  c.check(c.msg_eq(ns, before), 'input sequence not modified')
  if not kept:
    c.check(len(evs) == 0, 'nothing kept: empty melody')
    c.check(mel.end_step - mel.start_step == 0, 'empty melody spans no steps')
    return
  c.check(mel.steps_per_bar == spb and mel.steps_per_quarter == spq,
          'resolution')
  length = kept[-1][1] - t0
  padded = length + (-length % spb if pad else 0)
  c.check(len(evs) == padded, 'melody ends with its last note (padded to the '
          'bar on request)')
  c.check(mel.start_step == t0 and mel.end_step == t0 + padded,
          'melody begins at the bar of the first note')
  for t in range(padded):
    stp = t0 + t
    want = NO_EVENT
    for k, (s, e, p) in enumerate(kept):
      nxt = kept[k + 1][0] if k + 1 < len(kept) else None
      if stp == s:
        want = p
      elif stp == e and (nxt is None or e < nxt):
        if nxt is not None or padded > length:
          want = NOTE_OFF
    # a later onset on the same step overrides a note-off
    for (s, e, p) in kept:
      if stp == s:
        want = p
    c.check(c.eq(evs[t], want),
            'step holds onset of the highest note / note-off / no-event')
  c.cover('a note-off followed by silence then a new note',
          len(kept) >= 2 and kept[0][1] < kept[1][0])
  c.cover('gap ends the melody', len(kept) < len(groups))


# ---------------------------------------------------------------------------
# chords for event lists (public wrapper around ChordProgression)


def h_chord_lists(c):
  """chords_lib.event_list_chords: for every event of every given event
  sequence the chord in force at the step of that event."""
  cl = c.mod('chords_lib')
  ml = c.mod('melodies_lib')
  pb = c.pb
  TA = pb.NoteSequence.TextAnnotation
  Kc, S = c.params['K'], c.params['S']
  ns = pb.NoteSequence()
  ns.quantization_info.steps_per_quarter = 1
  ns.time_signatures.add(numerator=4, denominator=4)
  tq = c.int('tq', 1, S)
  ns.total_quantized_steps = tq
  chords = []
  for i in range(Kc):
    # every annotation lies inside the sequence
    q = c.int('c%d_q' % i, 0, S - 1)
    c.assume(q < tq)
    ty = c.int('c%d_ty' % i, 1, 2)  # CHORD_SYMBOL or BEAT
    ns.text_annotations.add(text=_FIGS[i], quantized_step=q,
                            annotation_type=ty)
    chords.append((q, ty, _FIGS[i]))
  st, L = c.params['start'], c.params['len']
  # two event sequences: steps st..st+L-1 (may run past the end of the
  # sequence: the last chord stays in force) and an empty one
  lists = [ml.Melody([60] + [NO_EVENT] * (L - 1), start_step=st), ml.Melody()]
  before = c.snapshot(ns)
  res, err = c.raises(cl.event_list_chords, ns, lists)
  real = [(c.concretize(q), t) for (q, ty, t) in chords
          if bool(c.eq(ty, TA.CHORD_SYMBOL))]
  coincident = any(q1 == q2 for i, (q1, t1) in enumerate(real)
                   for (q2, t2) in real[i + 1:])
  if coincident:
    c.check(err is not None and isinstance(err, cl.CoincidentChordsError),
            'two different chords on one step raise CoincidentChordsError')
    c.cover('coincident chords rejected')
    return
  c.check(err is None, 'no error without coincident chords')
  c.check(len(res) == 2 and len(res[0]) == L and len(res[1]) == 0,
          'one chord list per event sequence, one chord per event')
  for k in range(L):
    t = st + k
    best = None
    for (q, txt) in real:
      if q <= t and (best is None or q >= best[0]):
        best = (q, txt)
    want = best[1] if best else 'N.C.'
    c.check(res[0][k] == want, 'chord in force at the step of every event')
  c.check(c.msg_eq(ns, before), 'input sequence not modified')
  c.cover('events past the end of the sequence', c.concretize(tq) < st + L)


# ---------------------------------------------------------------------------
# construction without / with the wrong kind of sequence


def _tiny(c, relative):
  pb = c.pb
  ns = pb.NoteSequence()
  if relative:
    ns.quantization_info.steps_per_quarter = 4
  else:
    ns.quantization_info.steps_per_second = 100
  ns.time_signatures.add(numerator=4, denominator=4)
  ns.tempos.add(qpm=120)
  ns.notes.add(pitch=60, velocity=80, quantized_start_step=0,
               quantized_end_step=2, start_time=0.0,
               end_time=0.25 if relative else 0.02)
  ns.total_quantized_steps = 2
  return ns


def h_ctor(c):
  pl = c.mod('performance_lib')
  pr = c.mod('pianoroll_lib')
  dl = c.mod('drums_lib')
  cl = c.mod('chords_lib')
  ml = c.mod('melodies_lib')
  sl = c.mod('sequences_lib')
  case = c.params['case']
  rel, ab = _tiny(c, True), _tiny(c, False)
  if case == 'wrong_kind':
    # every extractor is documented for one kind of quantization; the other
    # kind is refused with QuantizationStatusError
    calls = [
        ('Performance', lambda: pl.Performance(rel)),
        ('NotePerformance', lambda: pl.NotePerformance(rel, 8)),
        ('MetricPerformance', lambda: pl.MetricPerformance(ab)),
        ('PianorollSequence',
         lambda: pr.PianorollSequence(quantized_sequence=ab)),
        ('DrumTrack', lambda: dl.DrumTrack().from_quantized_sequence(ab)),
        ('Melody', lambda: ml.Melody().from_quantized_sequence(ab)),
        ('ChordProgression',
         lambda: cl.ChordProgression().from_quantized_sequence(ab, 0, 2)),
        ('event_list_chords', lambda: cl.event_list_chords(ab, [])),
    ]
    for name, f in calls:
      res, err = c.raises(f)
      c.check(err is not None and
              isinstance(err, sl.QuantizationStatusError),
              'wrong kind of quantization refused with '
              'QuantizationStatusError')
  elif case == 'bins':
    # more velocity bins than MIDI velocities: ValueError
    nb = c.choice('nb', [127, 128, 200])
    for f in (lambda: pl.Performance(ab, num_velocity_bins=nb),
              lambda: pl.MetricPerformance(rel, num_velocity_bins=nb),
              lambda: pl.NotePerformance(ab, nb),
              lambda: pl.Performance(steps_per_second=100,
                                     num_velocity_bins=nb)):
      res, err = c.raises(f)
      if nb > 127:
        c.check(err is not None and isinstance(err, ValueError),
                'more than 127 velocity bins raise ValueError')
      else:
        c.check(err is None, '127 velocity bins accepted')
  elif case == 'one_of':
    # exactly one of the sequence and the resolution
    for f in (lambda: pl.Performance(),
              lambda: pl.Performance(ab, steps_per_second=100),
              lambda: pl.Performance(ab, 100),
              lambda: pl.MetricPerformance(),
              lambda: pl.MetricPerformance(rel, steps_per_quarter=4),
              lambda: pl.MetricPerformance(rel, 4)):
      res, err = c.raises(f)
      c.check(err is not None and isinstance(err, ValueError),
              'both / neither of sequence and resolution raise ValueError')
  elif case == 'empty':
    # no sequence: an empty performance that keeps what it was given
    r = c.int('res', 1, 1000)
    st = c.int('st', 0, 50)
    m = c.int('m', 1, 200)
    g = c.int('g', 0, 127)
    d = c.bool('d')
    nb = c.choice('nb', [0, 16])
    p1 = pl.Performance(steps_per_second=r, start_step=st,
                        num_velocity_bins=nb, max_shift_steps=m, program=g,
                        is_drum=d)
    c.check(len(list(p1)) == 0 and bool(c.And(
        c.eq(p1.steps_per_second, r), c.eq(p1.start_step, st),
        c.eq(p1.max_shift_steps, m), c.eq(p1.program, g),
        c.eq(p1.is_drum, d), c.eq(p1.num_steps, 0), c.eq(p1.end_step, st))),
            'empty Performance keeps resolution, start, limit, program, drum '
            'flag')
    p2 = pl.MetricPerformance(steps_per_quarter=r, start_step=st,
                              num_velocity_bins=nb, max_shift_quarters=m,
                              program=g, is_drum=d)
    c.check(len(list(p2)) == 0 and bool(c.And(
        c.eq(p2.steps_per_quarter, r), c.eq(p2.start_step, st),
        c.eq(p2.max_shift_steps, r * m), c.eq(p2.program, g),
        c.eq(p2.is_drum, d), c.eq(p2.num_steps, 0))),
            'empty MetricPerformance keeps resolution, start, limit (in '
            'steps), program, drum flag')
    p3 = pl.Performance(steps_per_second=r)
    c.check(p3.start_step == 0 and p3.max_shift_steps == 100 and
            p3.program is None and p3.is_drum is None,
            'documented defaults of an empty Performance')
    p4 = pl.MetricPerformance(steps_per_quarter=r)
    c.check(p4.start_step == 0 and bool(c.eq(p4.max_shift_steps, 4 * r)) and
            p4.program is None and p4.is_drum is None,
            'documented defaults of an empty MetricPerformance')
  elif case == 'roll_events':
    # PianorollSequence from an event list; shift_range=True: the events are in
    # MIDI pitches and are shifted / filtered to the window
    lo = c.int('lo', 0, 64)
    hi = c.int('hi', 64, 127)
    a = c.int('a', 0, 127)
    b = c.int('b', 0, 127)
    st = c.int('st', 0, 9)
    seq = pr.PianorollSequence(events_list=[(a, b), ()], steps_per_quarter=2,
                               start_step=st, min_pitch=lo, max_pitch=hi,
                               shift_range=True)
    evs = list(seq)
    c.check(len(evs) == 2 and len(evs[1]) == 0 and seq.num_steps == 2 and
            bool(c.And(c.eq(seq.start_step, st), c.eq(seq.end_step, st + 2)))
            and seq.steps_per_quarter == 2,
            'one event per given event; start step and resolution kept')
    want = [(c.And(lo <= x, x <= hi), (x - lo,)) for x in (a, b)]
    c.check(K.multiset_eq(c, [(x,) for x in evs[0]], want),
            'shift_range: in-window pitches as offsets from min_pitch')
    raw = pr.PianorollSequence(events_list=[(a, b)], steps_per_quarter=2,
                               min_pitch=lo, max_pitch=hi)
    e0 = list(raw)[0]
    c.check(len(e0) == 2 and bool(c.And(c.eq(e0[0], a), c.eq(e0[1], b))),
            'without shift_range the events are taken as they are')
  else:
    raise AssertionError(case)


HARNESSES = {
    'h_performance': h_performance,
    'h_noteperf': h_noteperf,
    'h_pianoroll': h_pianoroll,
    'h_drums': h_drums,
    'h_chords': h_chords,
    'h_melody': h_melody,
    'h_chord_lists': h_chord_lists,
    'h_ctor': h_ctor,
}


def jobs(tier):
  J = []

  def add(h, budget=300, required=True, **params):
    J.append({'harness': h, 'params': params, 'budget_s': budget,
              'required': required})

  deep = tier == 'thorough'
  # performances (steps unbounded)
  for kind in ('absolute', 'metric'):
    for bins in (0, 8):
      add('h_performance', kind=kind, N=1, bins=bins, msq=4)
  add('h_performance', kind='absolute', N=2, bins=8, msq=4, loops=2, budget=600)
  add('h_performance', kind='metric', N=2, bins=0, msq=4, loops=2, budget=600)
  add('h_performance', kind='absolute', N=1, bins=127, msq=4, instrument=1)
  # instrument filter with a second instrument present (program / drum flag
  # of the selected instrument only)
  add('h_performance', kind='metric', N=2, bins=0, msq=4, loops=1,
      instrument=1, budget=600)
  add('h_performance', kind='absolute', N=2, bins=0, msq=4, loops=1,
      instrument=0, budget=600)
  # bin counts that divide 126 (the fence-post between 126 and 127 velocities)
  add('h_performance', kind='absolute', N=1, bins=2, msq=4)
  add('h_performance', kind='metric', N=1, bins=21, msq=4)
  # the ends of the pitch range (0 is falsy in Python)
  add('h_performance', kind='absolute', N=1, bins=4, msq=4, pitch=[0, 1])
  add('h_performance', kind='metric', N=1, bins=0, msq=4, pitch=[126, 127])
  # three notes on concrete step patterns (all interleavings of on/off order
  # that matter for the velocity / shift logic), everything else symbolic
  for pat in _PATTERNS3:
    add('h_performance', kind='absolute', N=3, bins=8, msq=4, steps=pat)
  add('h_performance', kind='metric', N=3, bins=4, msq=1, steps=_PATTERNS3[0])
  add('h_noteperf', N=1, bins=32)
  add('h_noteperf', N=2, bins=127)
  # pianoroll
  for split in (False, True):
    for start in (0, 2):
      add('h_pianoroll', N=1, S=4, split=split, start=start)
      add('h_pianoroll', N=2, S=4, split=split, start=start, budget=600)
  # drums
  for pad in (False, True):
    add('h_drums', N=2, S=6, search=0, gap=1, pad=pad, ignore_is_drum=False)
  add('h_drums', N=2, S=6, search=4, gap=1, pad=False, ignore_is_drum=True)
  # 2-step bars: a first hit in a later bar followed by a whole silent bar fits
  # in 6 steps (gap measured from a track start other than 0)
  for pad in (False, True):
    add('h_drums', N=2, S=6, search=0, gap=1, pad=pad, ignore_is_drum=False,
        ts=[2, 4])
  add('h_drums', N=2, S=7, search=2, gap=2, pad=False, ignore_is_drum=True,
      ts=[2, 4])
  add('h_drums', N=1, S=4, search=0, gap=1, pad=False, ignore_is_drum=False,
      ts=[3, 8], spq=1)
  # chords
  add('h_chords', K=1, S=5, start=0, end=4)
  add('h_chords', K=2, S=5, start=1, end=4)
  add('h_chords', K=2, S=5, start=0, end=5, same_text=True)
  add('h_chords', K=1, S=3, start=0, end=4, ts=[3, 8], spq=1)
  # melody
  for ign in (False, True):
    add('h_melody', N=2, S=6, search=0, gap=1, pad=False, ignore_poly=ign,
        filter_drums=True, budget=600)
  add('h_melody', N=2, S=6, search=0, gap=1, pad=True, ignore_poly=True,
      filter_drums=False, budget=600)
  add('h_melody', N=1, S=6, search=4, gap=1, pad=True, ignore_poly=False,
      filter_drums=True)
  add('h_melody', N=1, S=4, search=0, gap=1, pad=False, ignore_poly=False,
      filter_drums=True, ts=[3, 8], spq=1)
  add('h_melody', N=1, S=4, search=0, gap=1, pad=False, ignore_poly=False,
      filter_drums=True, pitch=[0, 1])
  add('h_melody', N=1, S=4, search=0, gap=1, pad=False, ignore_poly=False,
      filter_drums=True, pitch=[126, 127])
  # 2-step bars: melody starting in a later bar, then a silent bar
  add('h_melody', N=2, S=6, search=0, gap=1, pad=False, ignore_poly=True,
      filter_drums=True, ts=[2, 4], budget=600)
  # three notes on concrete step patterns, pitches / velocities / drum flags /
  # instruments symbolic
  for pat in _PATTERNS3_SHORT:
    add('h_melody', N=3, S=8, search=0, gap=1, pad=False, ignore_poly=True,
        filter_drums=True, steps=pat, budget=600)
    add('h_drums', N=3, S=8, search=0, gap=1, pad=True, ignore_is_drum=False,
        steps=pat, budget=600)
  add('h_melody', N=3, S=8, search=0, gap=1, pad=True, ignore_poly=False,
      filter_drums=False, steps=_PATTERNS3_SHORT[0], budget=600)
  # ---- rarely used arguments, defaults by omission, other resolutions /
  # meters, used objects, the empty sequence
  # metric resolution other than the default 4 steps per quarter, limit in
  # quarters other than the default
  add('h_performance', kind='metric', N=1, bins=0, msq=2, spq=3)
  # only the sequence (all defaults)
  add('h_performance', kind='absolute', N=1, bins=0, msq=4, call='defaults')
  add('h_performance', kind='metric', N=1, bins=0, msq=4, spq=3,
      call='defaults')
  # program / is_drum arguments are ignored next to a sequence; absolute
  # resolution other than 100
  add('h_performance', kind='absolute', N=1, bins=4, msq=4, sps=50,
      call='given')
  add('h_performance', kind='metric', N=1, bins=0, msq=1, spq=2, call='given',
      instrument=0)
  # three instruments, filter on the middle one, start step inside the pattern
  add('h_performance', kind='absolute', N=3, bins=8, msq=4, steps=_PATTERNS3[0],
      ins_hi=2, instrument=1, start_hi=2, budget=600)
  add('h_performance', kind='metric', N=3, bins=0, msq=1, steps=_PATTERNS3[4],
      ins_hi=2, start_hi=2, spq=2, budget=600)
  add('h_performance', kind='absolute', N=0, bins=0, msq=4)
  add('h_performance', kind='metric', N=0, bins=8, msq=4, instrument=1)
  # NotePerformance: instrument filter (also None = all), start step,
  # defaults, program / drum flag
  add('h_noteperf', N=2, bins=16, ins_hi=1, instrument=1, sym_start=True,
      budget=600)
  add('h_noteperf', N=2, bins=8, ins_hi=1, instrument=None, sym_start=True,
      budget=600)
  add('h_noteperf', N=2, bins=127, ins_hi=1, call='defaults', sps=50)
  add('h_noteperf', N=0, bins=4, sym_start=True)
  # pianoroll: the default window 21..108 (by omission and explicitly),
  # another resolution, the empty sequence
  add('h_pianoroll', N=2, S=4, split=True, start=0, call='defaults',
      budget=600)
  add('h_pianoroll', N=1, S=4, split=False, start=2, window=[21, 108])
  add('h_pianoroll', N=1, S=4, split=True, start=0, spq=2, window=[0, 2])
  add('h_pianoroll', N=1, S=4, split=True, start=1, window=[125, 127])
  add('h_pianoroll', N=0, S=4, split=True, start=2)
  # drums
  add('h_drums', N=2, S=6, search=0, gap=1, pad=False, ignore_is_drum=False,
      call='defaults')
  add('h_drums', N=2, S=6, search=0, gap=1, pad=False, ignore_is_drum=False,
      reuse=True)
  add('h_drums', N=2, S=7, search=3, gap=1, pad=True, ignore_is_drum=False,
      ts=[6, 8])
  add('h_drums', N=2, S=7, search=4, gap=1, pad=True, ignore_is_drum=True,
      ts=[2, 4], spq=2)
  add('h_drums', N=1, S=7, search=0, gap=1, pad=True, ignore_is_drum=False,
      ts=[3, 4], spq=2)
  add('h_drums', N=2, S=6, search=0, gap=0, pad=False, ignore_is_drum=True)
  add('h_drums', N=0, S=4, search=0, gap=1, pad=True, ignore_is_drum=True,
      reuse=True)
  # chords
  add('h_chords', K=2, S=5, start=1, end=4, reuse=True)
  add('h_chords', K=2, S=5, start=0, end=5, ts=[6, 8], spq=2)
  add('h_chords', K=3, S=4, start=1, end=4)
  add('h_chords', K=3, S=4, start=0, end=4, same_text=True)
  add('h_chords', K=0, S=3, start=2, end=5, reuse=True)
  add('h_chord_lists', K=2, S=4, start=1, len=5)
  add('h_chord_lists', K=3, S=3, start=0, len=3)
  # melody: another instrument of three, used object, gap_bars 2 and 0,
  # 6/8 and a finer resolution, defaults, the empty sequence
  add('h_melody', N=2, S=6, search=0, gap=1, pad=True, ignore_poly=True,
      filter_drums=True, instrument=1, ins_hi=2, reuse=True, budget=600)
  add('h_melody', N=2, S=7, search=0, gap=2, pad=False, ignore_poly=True,
      filter_drums=True, ts=[2, 4], budget=600)
  add('h_melody', N=2, S=5, search=0, gap=0, pad=False, ignore_poly=False,
      filter_drums=False, budget=600)
  add('h_melody', N=2, S=7, search=3, gap=1, pad=True, ignore_poly=False,
      filter_drums=True, ts=[6, 8], budget=600)
  add('h_melody', N=2, S=6, search=0, gap=1, pad=True, ignore_poly=True,
      filter_drums=False, ts=[2, 4], spq=2, budget=600)
  add('h_melody', N=2, S=6, search=0, gap=1, pad=False, ignore_poly=False,
      filter_drums=True, call='defaults', budget=600)
  add('h_melody', N=3, S=8, search=0, gap=1, pad=False, ignore_poly=True,
      filter_drums=True, steps=_PATTERNS3_SHORT[3], instrument=2, ins_hi=2,
      budget=600)
  add('h_melody', N=0, S=4, search=0, gap=1, pad=True, ignore_poly=False,
      filter_drums=True, reuse=True)
  # constructors: wrong kind of quantization, too many velocity bins, both /
  # neither of sequence and resolution, empty objects, pianoroll event lists
  for case in ('wrong_kind', 'bins', 'one_of', 'empty', 'roll_events'):
    add('h_ctor', case=case)
  if deep:
    for kind in ('absolute', 'metric'):
      for bins in (0, 8):
        add('h_performance', kind=kind, N=2, bins=bins, msq=4, budget=1800)
    add('h_performance', kind='absolute', N=2, bins=127, msq=4, instrument=1,
        budget=1800)
    for kind in ('absolute', 'metric'):
      add('h_performance', kind=kind, N=3, bins=8, msq=4, loops=1, budget=3000,
          required=False)
      add('h_performance', kind=kind, N=3, bins=0, msq=1, budget=2400,
          required=False)
    add('h_noteperf', N=3, bins=16, budget=1800)
    for split in (False, True):
      add('h_pianoroll', N=2, S=6, split=split, start=0, budget=2400)
      add('h_pianoroll', N=3, S=4, split=split, start=0, budget=2400,
          required=False)
    for pad in (False, True):
      add('h_drums', N=2, S=9, search=0, gap=1, pad=pad, ignore_is_drum=False,
          budget=1800)
      add('h_drums', N=3, S=6, search=0, gap=1, pad=pad, ignore_is_drum=True,
          budget=2400, required=False)
    add('h_drums', N=2, S=9, search=0, gap=2, pad=False, ignore_is_drum=True,
        budget=1800)
    add('h_chords', K=3, S=6, start=1, end=5, budget=1800)
    add('h_chords', K=3, S=6, start=0, end=6, same_text=True, budget=1800)
    for ign in (False, True):
      for pad in (False, True):
        add('h_melody', N=2, S=9, search=0, gap=1, pad=pad, ignore_poly=ign,
            filter_drums=True, budget=2400)
      add('h_melody', N=3, S=6, search=0, gap=1, pad=False, ignore_poly=ign,
          filter_drums=True, budget=3000, required=False)
    add('h_melody', N=2, S=9, search=4, gap=1, pad=False, ignore_poly=True,
        filter_drums=False, budget=2400)
  return J
