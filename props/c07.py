"""C07 -- event extraction captures the quantized music it is given, step for
step."""
from fractions import Fraction

from props import common as K

META = {
    'level': 'model_checking',
    'level_text':
        'Every extractor (Performance, MetricPerformance, NotePerformance, '
        'PianorollSequence, DrumTrack, ChordProgression, Melody) runs on '
        'symbolic quantized NoteSequences built directly on the protobuf shim '
        '(steps, pitches, velocities, instruments, drum flags symbolic; the '
        'list-indexed extractors close the step domain by solver-driven '
        'forking) and on every path the solver compares the result with a '
        'declarative per-step specification written independently in the '
        'harness. Performances keep steps fully symbolic (no bound on the step '
        'values).',
    'level_note':
        'Trusted: z3 (integers), symproto and np-lite (validated per sampled '
        'path on upb/numpy). Precondition of the property (no two notes of one '
        'pitch overlap) is assumed. Melody\'s start bar is anchored at the '
        'first note of the instrument before drum/zero-velocity filtering (the '
        'oracle follows the code on this reading question).',
    'functions': [
        ('performance_lib', 'BasePerformance._from_quantized_sequence'),
        ('performance_lib', 'NotePerformance._from_quantized_sequence'),
        ('performance_lib', 'velocity_to_bin'),
        ('pianoroll_lib', 'PianorollSequence._from_quantized_sequence'),
        ('drums_lib', 'DrumTrack.from_quantized_sequence'),
        ('chords_lib', 'ChordProgression.from_quantized_sequence'),
        ('chords_lib', 'ChordProgression._add_chord'),
        ('melodies_lib', 'Melody.from_quantized_sequence'),
        ('melodies_lib', 'Melody._add_note'),
        ('melodies_lib', 'Melody._get_last_on_off_events'),
        ('sequences_lib', 'steps_per_bar_in_quantized_sequence'),
    ],
    'assumptions': [
        'no two notes of one pitch overlap (property precondition)',
        'quantized start/end steps with start < end; note times in seconds '
        'consistent with the steps (start_time = step / steps_per_second)',
        'performances: the sequence ends at most 3 (quick N=2: 2) '
        '*max_shift_steps after the '
        'start step (bounds the shift-splitting loop); step values themselves '
        'are unbounded',
        'list-indexed extractors: steps within [0, S] (S = 6 quick, 9 '
        'thorough), closed by forking',
    ],
    'bounds': {
        'quick': 'N<=2 notes with symbolic steps; performances additionally N=3 '
                 'on six concrete step patterns with symbolic velocities, '
                 'pitches; steps <= 6 for '
                 'melody/drums/chords/pianoroll; 4 steps per bar',
        'thorough': 'N<=3; steps <= 9; more parameter combinations',
    },
    'outside': ['more notes than the bounds', 'meters other than the listed '
                'ones'],
}

NO_EVENT, NOTE_OFF = -2, -1

_PATTERNS3_SHORT = [
    [[0, 2], [2, 4], [4, 5]],
    [[0, 4], [1, 2], [2, 3]],
    [[0, 1], [0, 2], [6, 7]],
    [[1, 3], [1, 2], [2, 7]],
]

# (start, end) step patterns for three notes: chained overlaps, nesting,
# abutting, a long gap, simultaneous onsets
_PATTERNS3 = [
    [[0, 2], [1, 4], [3, 5]],
    [[0, 5], [1, 2], [3, 4]],
    [[0, 2], [2, 4], [4, 6]],
    [[0, 1], [0, 3], [40, 41]],
    [[0, 3], [1, 3], [3, 4]],
    [[2, 3], [0, 6], [1, 5]],
]


def _qseq(c, N, smax, relative=True, spq=1, sps=100, ts=(4, 4), pitch=(58, 62),
          unbounded=False, instruments=(0, 1), vel=(0, 127), steps=None,
          no_overlap=True):
  """A quantized NoteSequence built directly on the message classes."""
  pb = c.pb
  ns = pb.NoteSequence()
  if relative:
    ns.quantization_info.steps_per_quarter = spq
    ns.tempos.add(qpm=120)
    per_sec = Fraction(spq * 2) if c.mode == 'sym' else spq * 2.0
  else:
    ns.quantization_info.steps_per_second = sps
    per_sec = Fraction(sps) if c.mode == 'sym' else float(sps)
  ns.time_signatures.add(numerator=ts[0], denominator=ts[1])
  notes = []
  for i in range(N):
    if steps is not None:
      # concrete step pattern (velocities, pitches, instruments stay symbolic)
      qs, qe = steps[i]
    else:
      qs = c.int('n%d_qs' % i, 0, None if unbounded else smax - 1)
      qe = c.int('n%d_qe' % i, 1, None if unbounded else smax)
      c.assume(qs < qe)
    p = c.int('n%d_p' % i, pitch[0], pitch[1])
    v = c.int('n%d_v' % i, vel[0], vel[1])
    ins = c.int('n%d_i' % i, instruments[0], instruments[1])
    d = c.bool('n%d_d' % i)
    g = c.int('n%d_g' % i, 0, 5)
    ns.notes.add(pitch=p, velocity=v, quantized_start_step=qs,
                 quantized_end_step=qe, start_time=qs / per_sec,
                 end_time=qe / per_sec, instrument=ins, is_drum=d,
                 program=g)
    notes.append(dict(qs=qs, qe=qe, p=p, v=v, i=ins, d=d, g=g))
  for a in range(N):
    for b in range(a + 1, N):
      if not no_overlap:
        break
      A, B = notes[a], notes[b]
      c.assume(c.Or(c.Not(c.eq(A['p'], B['p'])), A['qe'] <= B['qs'],
                    B['qe'] <= A['qs']))
  tq = c.int('tq', 0, None if unbounded else (
      smax if steps is None else max(e for _, e in steps) + 1))
  for n in notes:
    c.assume(n['qe'] <= tq)
  ns.total_quantized_steps = tq
  return ns, notes, tq


# ---------------------------------------------------------------------------
# performances


def _check_perf_events(c, pl, events, notes, start, ms, nbins, instrument):
  PE = pl.PerformanceEvent
  step = start
  ons, offs = [], []
  cur_bin = 0
  shifts_ok = []
  for e in events:
    if e.event_type == PE.TIME_SHIFT:
      shifts_ok.append(c.And(e.event_value >= 1, e.event_value <= ms))
      step = step + e.event_value
    elif e.event_type == PE.VELOCITY:
      cur_bin = e.event_value
    elif e.event_type == PE.NOTE_ON:
      ons.append((e.event_value, step, cur_bin))
    elif e.event_type == PE.NOTE_OFF:
      offs.append((e.event_value, step))
  c.check(c.And(shifts_ok or [True]),
          'every time shift lies in 1..max_shift_steps')
  sel = [c.And(n['qs'] >= start,
               True if instrument is None else c.eq(n['i'], instrument))
         for n in notes]

  def vbin(v):
    # equal-width bins over the 127 MIDI velocities 1..127, independent of the
    # library's own helper: width ceil(127 / nbins), bins numbered from 1
    if not nbins:
      return 0
    width = -(-127 // nbins)
    return (v - 1) // width + 1

  exp_on = [(s, (n['p'], n['qs'], vbin(n['v']))) for s, n in zip(sel, notes)]
  exp_off = [(s, (n['p'], n['qe'])) for s, n in zip(sel, notes)]
  c.check(K.multiset_eq(c, ons, exp_on),
          'note-ons = selected notes (pitch, start step, velocity bin)')
  c.check(K.multiset_eq(c, offs, exp_off),
          'note-offs = selected notes (pitch, end step)')
  last = c.Max([start] + [c.If(s, n['qe'], start) for s, n in zip(sel, notes)])
  c.check(c.eq(step, last), 'time shifts sum to the elapsed steps')


def h_performance(c):
  pl = c.mod('performance_lib')
  N = c.params['N']
  nbins = c.params['bins']
  kind = c.params['kind']
  relative = kind == 'metric'
  pattern = c.params.get('steps')
  ns, notes, tq = _qseq(c, N, None, relative=relative, spq=4, sps=100,
                        unbounded=pattern is None, vel=(1, 127),
                        instruments=(0, 1) if pattern is None else (0, 0),
                        steps=pattern,
                        pitch=tuple(c.params.get('pitch', (58, 62))))
  start = c.int('start', 0, None) if pattern is None else 0
  instrument = c.params.get('instrument')
  if relative:
    c.assume(tq <= start + c.params.get('loops', 3) * c.params['msq'] * 4)
    perf = pl.MetricPerformance(ns, start_step=start, num_velocity_bins=nbins,
                                max_shift_quarters=c.params['msq'],
                                instrument=instrument)
    ms = c.params['msq'] * 4
  else:
    ms = c.int('ms', 1, 1000)
    # the shift-splitting loop runs (gap // max_shift_steps) times: bound it
    c.assume(tq <= start + c.params.get('loops', 3) * ms)
    perf = pl.Performance(ns, start_step=start, num_velocity_bins=nbins,
                          max_shift_steps=ms, instrument=instrument)
  _check_perf_events(c, pl, list(perf), notes, start, ms, nbins, instrument)
  c.check(c.eq(perf.start_step, start), 'start step kept')
  # program / drum flag: those of the selected instrument's notes (all notes
  # of that instrument count, also the ones before start_step)
  sel = [True if instrument is None else c.eq(n['i'], instrument)
         for n in notes]
  all_drum = c.And([c.Implies(s_, n['d']) for s_, n in zip(sel, notes)])
  none_drum = c.And([c.Implies(s_, c.Not(n['d'])) for s_, n in zip(sel, notes)])
  c.check(c.If(all_drum, perf.is_drum is True,
               c.If(none_drum, perf.is_drum is False, perf.is_drum is None)),
          'is_drum = the drum flag shared by the selected instrument\'s notes')
  one_prog = c.And([c.Implies(c.And(sel[a], sel[b]),
                              c.eq(notes[a]['g'], notes[b]['g']))
                    for a in range(N) for b in range(a + 1, N)] or [True])
  want_prog = c.And(c.Not(all_drum), none_drum, one_prog)
  if perf.program is None:
    c.check(c.Not(want_prog), 'program lost although the selected '
            'instrument\'s notes share one program')
  else:
    c.check(c.And([want_prog] + [c.Implies(s_, c.eq(perf.program, n['g']))
                                 for s_, n in zip(sel, notes)]),
            'program = the program of the selected instrument\'s notes')
  if N >= 2:
    c.cover('abutting notes of one pitch',
            c.And(c.eq(notes[0]['p'], notes[1]['p']),
                  c.eq(notes[0]['qe'], notes[1]['qs'])))
    c.cover('a gap longer than max_shift_steps',
            notes[1]['qs'] > notes[0]['qe'] + 2 * ms)


def h_noteperf(c):
  pl = c.mod('performance_lib')
  PE = pl.PerformanceEvent
  N = c.params['N']
  nbins = c.params['bins']
  ns, notes, tq = _qseq(c, N, None, relative=False, sps=100, unbounded=True,
                        vel=(1, 127), instruments=(0, 0))
  ms = c.int('ms', 1, 1000)
  md = c.int('md', 1, 1000)
  res, err = c.raises(pl.NotePerformance, ns, nbins, 0, 0, ms, md)
  # expected: notes in (start, pitch) order; errors for too long shifts/durs
  order = sorted(range(N), key=lambda i: (notes[i]['qs'], notes[i]['p']))
  cur = 0
  too_shift = []
  too_dur = []
  for i in order:
    too_shift.append(notes[i]['qs'] - cur > ms)
    too_dur.append(notes[i]['qe'] - notes[i]['qs'] > md)
    cur = notes[i]['qs']
  bad = c.Or(too_shift + too_dur)
  if err is not None:
    c.check(isinstance(err, (pl.TooManyTimeShiftStepsError,
                             pl.TooManyDurationStepsError)),
            'only the documented errors')
    c.check(bad, 'raised although every shift and duration fits')
    c.cover('too long shift or duration rejected')
    return
  c.check(c.Not(bad), 'too long shift/duration accepted')
  evs = list(res)
  c.check(len(evs) == N, 'one event tuple per note')
  step = 0
  got = []
  for t in evs:
    step = step + t[0].event_value
    got.append((t[1].event_value, step, step + t[3].event_value,
                t[2].event_value))
    c.check(c.And(t[0].event_value >= 0, t[0].event_value <= ms,
                  t[3].event_value >= 1, t[3].event_value <= md),
            'shift and duration within their limits')
  exp = [(True, (n['p'], n['qs'], n['qe'], pl.velocity_to_bin(n['v'], nbins)))
         for n in notes]
  c.check(K.multiset_eq(c, got, exp),
          'tuples = notes (pitch, start, end, velocity bin)')
  c.cover('accepted')


# ---------------------------------------------------------------------------
# pianoroll


def h_pianoroll(c):
  pr = c.mod('pianoroll_lib')
  N, S = c.params['N'], c.params['S']
  split = c.params['split']
  lo, hi = 59, 61
  ns, notes, tq = _qseq(c, N, S, relative=True, spq=1, pitch=(58, 62))
  start = c.params['start']
  c.assume(tq >= start)
  seq = pr.PianorollSequence(quantized_sequence=ns, start_step=start,
                             min_pitch=lo, max_pitch=hi, split_repeats=split)
  T = c.concretize(tq) - start
  evs = list(seq)
  c.check(len(evs) == T, 'one event per step up to total_quantized_steps')
  c.check(seq.start_step == start and seq.steps_per_quarter == 1,
          'start step and resolution')
  for t in range(T):
    stp = start + t
    for p in range(lo, hi + 1):
      used = [c.And(n['qs'] >= start, c.eq(n['p'], p)) for n in notes]
      sounding = c.Or([c.And(u, n['qs'] <= stp, stp < n['qe'])
                       for u, n in zip(used, notes)])
      if split:
        before_repeat = c.Or([c.And(u, c.eq(n['qs'], stp + 1))
                              for u, n in zip(used, notes)])
        on = c.And(sounding, c.Not(before_repeat))
      else:
        on = sounding
      present = (p - lo) in evs[t]
      c.check(c.And(c.Implies(on, present), c.Implies(c.Not(on), not present)),
              'step holds exactly the sounding in-range pitches')
    c.check(list(evs[t]) == sorted(set(evs[t])), 'event is a sorted tuple')
  if N >= 2:
    c.cover('abutting notes of one pitch',
            c.And(c.eq(notes[0]['p'], notes[1]['p']),
                  c.eq(notes[1]['qe'], notes[0]['qs']), c.eq(notes[0]['p'], 60)))
  c.cover('note starts exactly on start_step',
          c.And(c.eq(notes[0]['qs'], start), c.eq(notes[0]['p'], 60)))


# ---------------------------------------------------------------------------
# drums


def h_drums(c):
  dl = c.mod('drums_lib')
  el = c.mod('events_lib')
  N, S = c.params['N'], c.params['S']
  ts = tuple(c.params.get('ts', (4, 4)))
  spq = c.params.get('spq', 1)
  ns, notes, tq = _qseq(c, N, S, relative=True, spq=spq, ts=ts, pitch=(36, 38),
                        steps=c.params.get('steps'))
  search = c.params['search']
  gap_bars = c.params['gap']
  pad = c.params['pad']
  ign = c.params['ignore_is_drum']
  track = dl.DrumTrack()
  res, err = c.raises(track.from_quantized_sequence, ns, search, gap_bars, pad,
                      ign)
  spb_f = Fraction(spq * 4 * ts[0], ts[1])
  if spb_f.denominator != 1:
    c.check(err is not None and isinstance(err, el.NonIntegerStepsPerBarError),
            'fractional bar rejected with NonIntegerStepsPerBarError')
    return
  c.check(err is None, 'no error for an integer bar length')
  spb = int(spb_f)
  # declarative expectation on concretised steps
  struck = {}
  for n in notes:
    qs = c.concretize(n['qs'])
    if qs < search:
      continue
    if not (bool(n['d']) or ign):
      continue
    if bool(c.eq(n['v'], 0)):
      continue
    struck.setdefault(qs, []).append(n['p'])
  if not struck:
    c.check(len(track) == 0, 'no drums: empty track')
    return
  steps = sorted(struck)
  t0 = steps[0] - (steps[0] - search) % spb
  kept = []
  for s in steps:
    if kept and (s - t0) - (kept[-1] - t0 + 1) >= gap_bars * spb:
      break
    kept.append(s)
  length = kept[-1] - t0 + 1
  if pad:
    length += -length % spb
  evs = list(track)
  c.check(track.start_step == t0, 'track starts at the bar of the first drum')
  c.check(len(evs) == length and track.end_step == t0 + length,
          'track ends after the last drum before a gap (padded to the bar)')
  c.check(track.steps_per_bar == spb and track.steps_per_quarter == spq,
          'resolution')
  for t in range(length):
    want = struck.get(t0 + t, []) if (t0 + t) in kept else []
    got = evs[t]
    c.check(len(got) <= len(want) and
            bool(c.And([c.Or([c.eq(g, w) for w in want] or [False])
                        for g in got] or [True])) and
            bool(c.And([c.Or([c.eq(g, w) for g in got] or [False])
                        for w in want] or [True])),
            'step holds exactly the drum pitches struck there')
  c.cover('gap ends the track', len(kept) < len(steps))


# ---------------------------------------------------------------------------
# chords

_FIGS = ['C', 'G7', 'Am']


def h_chords(c):
  cl = c.mod('chords_lib')
  el = c.mod('events_lib')
  pb = c.pb
  TA = pb.NoteSequence.TextAnnotation
  Kc, S = c.params['K'], c.params['S']
  ts = tuple(c.params.get('ts', (4, 4)))
  spq = c.params.get('spq', 1)
  ns = pb.NoteSequence()
  ns.quantization_info.steps_per_quarter = spq
  ns.time_signatures.add(numerator=ts[0], denominator=ts[1])
  same_text = c.params.get('same_text', False)
  chords = []
  for i in range(Kc):
    q = c.int('c%d_q' % i, 0, S)
    ty = c.int('c%d_ty' % i, 1, 2)  # CHORD_SYMBOL or BEAT
    text = _FIGS[0] if same_text else _FIGS[i]
    ns.text_annotations.add(text=text, quantized_step=q, annotation_type=ty)
    chords.append((q, ty, text))
  start, end = c.params['start'], c.params['end']
  prog = cl.ChordProgression()
  res, err = c.raises(prog.from_quantized_sequence, ns, start, end)
  spb_f = Fraction(spq * 4 * ts[0], ts[1])
  if spb_f.denominator != 1:
    c.check(err is not None and isinstance(err, el.NonIntegerStepsPerBarError),
            'fractional bar rejected with NonIntegerStepsPerBarError')
    return
  real = [(c.concretize(q), t) for (q, ty, t) in chords
          if bool(c.eq(ty, TA.CHORD_SYMBOL))]
  coincident = any(q1 == q2 and t1 != t2 and start <= q1 < end
                   for i, (q1, t1) in enumerate(real)
                   for (q2, t2) in real[i + 1:])
  if coincident:
    c.check(err is not None and isinstance(err, cl.CoincidentChordsError),
            'two different chords on one step raise CoincidentChordsError')
    c.cover('coincident chords rejected')
    return
  c.check(err is None, 'no error without coincident chords')
  evs = list(prog)
  c.check(len(evs) == end - start and prog.start_step == start and
          prog.end_step == end, 'one event per step of [start, end)')
  for t in range(start, end):
    best = None
    for (q, txt) in real:
      if q <= t and (best is None or q >= best[0]):
        best = (q, txt)
    want = best[1] if best else 'N.C.'
    c.check(evs[t - start] == want, 'chord in force at every step')
  c.cover('accepted')


# ---------------------------------------------------------------------------
# melody


def h_melody(c):
  ml = c.mod('melodies_lib')
  el = c.mod('events_lib')
  N, S = c.params['N'], c.params['S']
  ts = tuple(c.params.get('ts', (4, 4)))
  spq = c.params.get('spq', 1)
  ns, notes, tq = _qseq(c, N, S, relative=True, spq=spq, ts=ts,
                        pitch=tuple(c.params.get('pitch', (60, 62))),
                        instruments=(0, 1), steps=c.params.get('steps'))
  search = c.params['search']
  gap_bars = c.params['gap']
  pad = c.params['pad']
  ign = c.params['ignore_poly']
  fdr = c.params['filter_drums']
  mel = ml.Melody()
  res, err = c.raises(mel.from_quantized_sequence, ns, search, 0, gap_bars, ign,
                      pad, fdr)
  spb_f = Fraction(spq * 4 * ts[0], ts[1])
  if spb_f.denominator != 1:
    c.check(err is not None and isinstance(err, el.NonIntegerStepsPerBarError),
            'fractional bar rejected with NonIntegerStepsPerBarError')
    return
  spb = int(spb_f)
  cand = []
  for n in notes:
    if not bool(c.eq(n['i'], 0)):
      continue
    qs, qe = c.concretize(n['qs']), c.concretize(n['qe'])
    if qs < search:
      continue
    cand.append((qs, qe, n))
  if not cand:
    c.check(err is None and len(mel) == 0, 'no notes: empty melody')
    return
  first = min(q for q, _, _ in cand)
  t0 = first - (first - search) % spb
  valid = [(qs, qe, n) for (qs, qe, n) in cand
           if not (fdr and bool(n['d'])) and not bool(c.eq(n['v'], 0))]
  groups = {}
  for qs, qe, n in valid:
    groups.setdefault(qs, []).append((qe, n))
  kept = []  # (start, end, pitch)
  poly = False
  for qs in sorted(groups):
    g = groups[qs]
    # highest pitch of the group (symbolic pitches: fold with a forking max)
    top = g[0]
    for x in g[1:]:
      if bool(x[1]['p'] > top[1]['p']):
        top = x
    if kept and qs - kept[-1][1] >= gap_bars * spb:
      break
    kept.append((qs, top[0], top[1]['p']))
    if len(g) > 1:
      poly = True
      if not ign:
        break
  if poly and not ign:
    c.check(err is not None and isinstance(err, ml.PolyphonicMelodyError),
            'two notes starting together raise PolyphonicMelodyError')
    c.cover('polyphony rejected')
    return
  c.check(err is None, 'no error for monophonic input (or ignored polyphony)')
  evs = list(mel)
  if not kept:
    c.check(len(evs) == 0, 'nothing kept: empty melody')
    return
  length = kept[-1][1] - t0
  padded = length + (-length % spb if pad else 0)
  c.check(len(evs) == padded, 'melody ends with its last note (padded to the '
          'bar on request)')
  c.check(mel.start_step == t0 and mel.end_step == t0 + padded,
          'melody begins at the bar of the first note')
  for t in range(padded):
    stp = t0 + t
    want = NO_EVENT
    for k, (s, e, p) in enumerate(kept):
      nxt = kept[k + 1][0] if k + 1 < len(kept) else None
      if stp == s:
        want = p
      elif stp == e and (nxt is None or e < nxt):
        if nxt is not None or padded > length:
          want = NOTE_OFF
    # a later onset on the same step overrides a note-off
    for (s, e, p) in kept:
      if stp == s:
        want = p
    c.check(c.eq(evs[t], want),
            'step holds onset of the highest note / note-off / no-event')
  c.cover('a note-off followed by silence then a new note',
          len(kept) >= 2 and kept[0][1] < kept[1][0])
  c.cover('gap ends the melody', len(kept) < len(groups))


HARNESSES = {
    'h_performance': h_performance,
    'h_noteperf': h_noteperf,
    'h_pianoroll': h_pianoroll,
    'h_drums': h_drums,
    'h_chords': h_chords,
    'h_melody': h_melody,
}


def jobs(tier):
  J = []

  def add(h, budget=300, required=True, **params):
    J.append({'harness': h, 'params': params, 'budget_s': budget,
              'required': required})

  deep = tier == 'thorough'
  # performances (steps unbounded)
  for kind in ('absolute', 'metric'):
    for bins in (0, 8):
      add('h_performance', kind=kind, N=1, bins=bins, msq=4)
  add('h_performance', kind='absolute', N=2, bins=8, msq=4, loops=2, budget=600)
  add('h_performance', kind='metric', N=2, bins=0, msq=4, loops=2, budget=600)
  add('h_performance', kind='absolute', N=1, bins=127, msq=4, instrument=1)
  # instrument filter with a second instrument present (program / drum flag
  # of the selected instrument only)
  add('h_performance', kind='metric', N=2, bins=0, msq=4, loops=1,
      instrument=1, budget=600)
  add('h_performance', kind='absolute', N=2, bins=0, msq=4, loops=1,
      instrument=0, budget=600)
  # bin counts that divide 126 (the fence-post between 126 and 127 velocities)
  add('h_performance', kind='absolute', N=1, bins=2, msq=4)
  add('h_performance', kind='metric', N=1, bins=21, msq=4)
  # the ends of the pitch range (0 is falsy in Python)
  add('h_performance', kind='absolute', N=1, bins=4, msq=4, pitch=[0, 1])
  add('h_performance', kind='metric', N=1, bins=0, msq=4, pitch=[126, 127])
  # three notes on concrete step patterns (all interleavings of on/off order
  # that matter for the velocity / shift logic), everything else symbolic
  for pat in _PATTERNS3:
    add('h_performance', kind='absolute', N=3, bins=8, msq=4, steps=pat)
  add('h_performance', kind='metric', N=3, bins=4, msq=1, steps=_PATTERNS3[0])
  add('h_noteperf', N=1, bins=32)
  add('h_noteperf', N=2, bins=127)
  # pianoroll
  for split in (False, True):
    for start in (0, 2):
      add('h_pianoroll', N=1, S=4, split=split, start=start)
      add('h_pianoroll', N=2, S=4, split=split, start=start, budget=600)
  # drums
  for pad in (False, True):
    add('h_drums', N=2, S=6, search=0, gap=1, pad=pad, ignore_is_drum=False)
  add('h_drums', N=2, S=6, search=4, gap=1, pad=False, ignore_is_drum=True)
  # 2-step bars: a first hit in a later bar followed by a whole silent bar fits
  # in 6 steps (gap measured from a track start other than 0)
  for pad in (False, True):
    add('h_drums', N=2, S=6, search=0, gap=1, pad=pad, ignore_is_drum=False,
        ts=[2, 4])
  add('h_drums', N=2, S=7, search=2, gap=2, pad=False, ignore_is_drum=True,
      ts=[2, 4])
  add('h_drums', N=1, S=4, search=0, gap=1, pad=False, ignore_is_drum=False,
      ts=[3, 8], spq=1)
  # chords
  add('h_chords', K=1, S=5, start=0, end=4)
  add('h_chords', K=2, S=5, start=1, end=4)
  add('h_chords', K=2, S=5, start=0, end=5, same_text=True)
  add('h_chords', K=1, S=3, start=0, end=4, ts=[3, 8], spq=1)
  # melody
  for ign in (False, True):
    add('h_melody', N=2, S=6, search=0, gap=1, pad=False, ignore_poly=ign,
        filter_drums=True, budget=600)
  add('h_melody', N=2, S=6, search=0, gap=1, pad=True, ignore_poly=True,
      filter_drums=False, budget=600)
  add('h_melody', N=1, S=6, search=4, gap=1, pad=True, ignore_poly=False,
      filter_drums=True)
  add('h_melody', N=1, S=4, search=0, gap=1, pad=False, ignore_poly=False,
      filter_drums=True, ts=[3, 8], spq=1)
  add('h_melody', N=1, S=4, search=0, gap=1, pad=False, ignore_poly=False,
      filter_drums=True, pitch=[0, 1])
  add('h_melody', N=1, S=4, search=0, gap=1, pad=False, ignore_poly=False,
      filter_drums=True, pitch=[126, 127])
  # 2-step bars: melody starting in a later bar, then a silent bar
  add('h_melody', N=2, S=6, search=0, gap=1, pad=False, ignore_poly=True,
      filter_drums=True, ts=[2, 4], budget=600)
  # three notes on concrete step patterns, pitches / velocities / drum flags /
  # instruments symbolic
  for pat in _PATTERNS3_SHORT:
    add('h_melody', N=3, S=8, search=0, gap=1, pad=False, ignore_poly=True,
        filter_drums=True, steps=pat, budget=600)
    add('h_drums', N=3, S=8, search=0, gap=1, pad=True, ignore_is_drum=False,
        steps=pat, budget=600)
  add('h_melody', N=3, S=8, search=0, gap=1, pad=True, ignore_poly=False,
      filter_drums=False, steps=_PATTERNS3_SHORT[0], budget=600)
  if deep:
    for kind in ('absolute', 'metric'):
      for bins in (0, 8):
        add('h_performance', kind=kind, N=2, bins=bins, msq=4, budget=1800)
    add('h_performance', kind='absolute', N=2, bins=127, msq=4, instrument=1,
        budget=1800)
    for kind in ('absolute', 'metric'):
      add('h_performance', kind=kind, N=3, bins=8, msq=4, loops=1, budget=3000,
          required=False)
      add('h_performance', kind=kind, N=3, bins=0, msq=1, budget=2400,
          required=False)
    add('h_noteperf', N=3, bins=16, budget=1800)
    for split in (False, True):
      add('h_pianoroll', N=2, S=6, split=split, start=0, budget=2400)
      add('h_pianoroll', N=3, S=4, split=split, start=0, budget=2400,
          required=False)
    for pad in (False, True):
      add('h_drums', N=2, S=9, search=0, gap=1, pad=pad, ignore_is_drum=False,
          budget=1800)
      add('h_drums', N=3, S=6, search=0, gap=1, pad=pad, ignore_is_drum=True,
          budget=2400, required=False)
    add('h_drums', N=2, S=9, search=0, gap=2, pad=False, ignore_is_drum=True,
        budget=1800)
    add('h_chords', K=3, S=6, start=1, end=5, budget=1800)
    add('h_chords', K=3, S=6, start=0, end=6, same_text=True, budget=1800)
    for ign in (False, True):
      for pad in (False, True):
        add('h_melody', N=2, S=9, search=0, gap=1, pad=pad, ignore_poly=ign,
            filter_drums=True, budget=2400)
      add('h_melody', N=3, S=6, search=0, gap=1, pad=False, ignore_poly=ign,
          filter_drums=True, budget=3000, required=False)
    add('h_melody', N=2, S=9, search=4, gap=1, pad=False, ignore_poly=True,
        filter_drums=False, budget=2400)
  return J
