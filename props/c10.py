"""C10 -- transposition shifts every pitch, key and chord by the same interval."""
from props import common as K

META = {
    'level': 'model_checking',
    'level_text':
        'The real transpose_note_sequence, _transpose_pitch_class, '
        'transpose_chord_symbol, Melody/ChordProgression/LeadSheet.transpose, '
        '_clamp_transpose and augment_note_sequence (random replaced by a '
        'nondeterministic stub) are executed with the interval k, the allowed '
        'range, pitches, alterations, melody events and note-range symbolic; '
        'on every path the solver shows the shift-by-k (mod 12 for keys, '
        'chords and folded melody notes), the exact deletion set and count and '
        'that nothing else moves.',
    'level_note':
        'Trusted: z3 (integers), symproto, the chord-symbol *parser* of the '
        'same module as the reference for what a transposed chord string '
        'denotes. Chord symbol strings are concrete per job (the regex parser '
        'needs concrete text): the symbol grid is data enumeration, k is '
        'symbolic.',
    'functions': [('sequences_lib', 'transpose_note_sequence'),
                  ('sequences_lib', '_clamp_transpose'),
                  ('sequences_lib', 'augment_note_sequence'),
                  ('chord_symbols_lib', '_transpose_pitch_class'),
                  ('chord_symbols_lib', 'transpose_chord_symbol'),
                  ('melodies_lib', 'Melody.transpose'),
                  ('melodies_lib', 'Melody.squash'),
                  ('chords_lib', 'ChordProgression.transpose'),
                  ('lead_sheets_lib', 'LeadSheet.transpose'),
                  ('lead_sheets_lib', 'LeadSheet.squash'),
                  ('melodies_lib', 'Melody.get_major_key')],
    'assumptions': [
        'pitches 0..127, k in -127..127, allowed range within 0..127',
        'total_time after transposition is only required to cover the kept '
        'notes (the statement\'s "all times alone" is read as note/event times)',
        'chord symbols come from a grid assembled from the module\'s own root '
        'and kind tables (concrete strings), k symbolic',
        'Melody.squash / LeadSheet.squash with a target key: only "every '
        'note moves by the RETURNED amount mod 12 into [min,max), chords by '
        'the same amount" is required; which key the heuristic picks is not '
        'part of the property (key histogram and argmax run through np-lite)',
    ],
    'bounds': {
        'quick': 'N<=2 notes; melody length <=2; 40 chord symbols; alter in '
                 '[-3,3]',
        'thorough': 'N<=3; melody length <=4; ~700 chord symbols (35 roots x '
                    'first abbreviation of every kind x modifications x bass)',
    },
    'outside': ['which key squash picks', 'longer melodies / more notes'],
}


def h_transpose_ns(c):
  N = c.params['N']
  pb, sl = c.pb, c.mod('sequences_lib')
  TA = pb.NoteSequence.TextAnnotation
  ns = pb.NoteSequence()
  notes = []
  for i in range(N):
    d = dict(
        pitch=c.int('n%d_p' % i, 0, 127),
        velocity=c.int('n%d_v' % i, 1, 127),
        start_time=c.real('n%d_s' % i, 0),
        end_time=c.real('n%d_e' % i, 0),
        is_drum=c.bool('n%d_d' % i),
        pitch_name=c.int('n%d_pn' % i, 0, 35),
        instrument=c.int('n%d_i' % i, 0, 3))
    c.assume(d['end_time'] >= d['start_time'])
    ns.notes.add(**d)
    notes.append(d)
  tt = c.real('tt', 0)
  for n in notes:
    c.assume(n['end_time'] <= tt)
  ns.total_time = tt
  key = c.int('key', 0, 11)
  ns.key_signatures.add(time=0, key=key, mode=c.int('mode', 0, 1))
  ns.text_annotations.add(time=0, text='free text', annotation_type=TA.UNKNOWN)
  ns.text_annotations.add(time=0, text='N.C.', annotation_type=TA.CHORD_SYMBOL)
  ns.control_changes.add(time=c.real('cc_t', 0), control_number=64,
                         control_value=100)
  k = c.int('k', -127, 127)
  lo = c.int('lo', 0, 127)
  hi = c.int('hi', 0, 127)
  in_place = c.params['in_place']
  before = c.snapshot(ns)
  tchords = c.params.get('transpose_chords', True)
  out, deleted = sl.transpose_note_sequence(ns, k, lo, hi,
                                            transpose_chords=tchords,
                                            in_place=in_place)
  if in_place:
    c.check(out is ns, 'in_place=True returns the same object')
  else:
    c.check(out is not ns, 'in_place=False returns a copy')
    c.check(c.msg_eq(ns, before), 'input unchanged')
  exp = []
  for n in notes:
    keep = c.Or(n['is_drum'], c.And(lo <= n['pitch'] + k, n['pitch'] + k <= hi))
    newp = c.If(n['is_drum'], n['pitch'], n['pitch'] + k)
    newname = c.If(n['is_drum'], n['pitch_name'], 0)
    exp.append((keep, (newp, n['velocity'], n['start_time'], n['end_time'],
                       n['is_drum'], newname, n['instrument'])))
  got = [(m.pitch, m.velocity, m.start_time, m.end_time, m.is_drum,
          m.pitch_name, m.instrument) for m in out.notes]
  c.check(K.multiset_eq(c, got, exp),
          'kept notes = in-range or drum notes, pitched ones moved by k')
  c.check(c.eq(deleted, N - c.Count([cd for cd, _ in exp])),
          'deleted count exact')
  for m in out.notes:
    c.check(out.total_time >= m.end_time, 'total_time covers kept notes')
  c.check(c.eq(out.key_signatures[0].key, (key + k) % 12),
          'key signature moved by k mod 12')
  if tchords:
    c.check(c.And(c.msg_eq(out.text_annotations[0], before.text_annotations[0]),
                  c.msg_eq(out.text_annotations[1], before.text_annotations[1]),
                  c.msg_eq(out.control_changes[0], before.control_changes[0])),
            'non-chord annotations, N.C. and control changes untouched')
  else:
    # transpose_chords=False: chord symbols are removed, everything else
    # (including the key shift above) is as before
    c.check(len(out.text_annotations) == 1 and bool(c.And(
        c.msg_eq(out.text_annotations[0], before.text_annotations[0]),
        c.msg_eq(out.control_changes[0], before.control_changes[0]))),
            'transpose_chords=False removes the chord symbols only')
  c.cover('a note falls just outside the allowed range',
          c.And(c.Not(notes[0]['is_drum']), c.eq(notes[0]['pitch'] + k, hi + 1)))
  c.cover('a drum note outside the range is kept',
          c.And(notes[0]['is_drum'], notes[0]['pitch'] + k > hi))


def h_spelling(c):
  cs = c.mod('chord_symbols_lib')
  step = c.params['step']
  alter = c.int('alter', -3, 3)
  k = c.int('k', -127, 127)
  st2, al2 = cs._transpose_pitch_class(step, alter, k)
  c.check(st2 in 'ABCDEFG', 'result step is a letter')
  c.check(c.eq(cs._pitch_class_to_midi(st2, al2),
               (cs._pitch_class_to_midi(step, alter) + k) % 12),
          'spelling walk moves the pitch class by k mod 12')


def _ref(cs, figure):
  root = cs.chord_symbol_root(figure)
  bass = cs.chord_symbol_bass(figure)
  pcs = sorted(set(p % 12 for p in cs.chord_symbol_pitches(figure)))
  qual = cs.chord_symbol_quality(figure)
  return root, bass, pcs, qual


def h_chord_symbol(c):
  cs = c.mod('chord_symbols_lib')
  figure = c.params['figure']
  k = c.int('k', -127, 127)
  out = cs.transpose_chord_symbol(figure, k)
  # k is concretised by the walk (12 residues, closed by the solver); the
  # reference interpretation below is the module's own parser on both strings
  kk = c.concretize(k % 12)
  try:
    r0, b0, p0, q0 = _ref(cs, figure)
  except cs.ChordSymbolError:
    # the grid produced a symbol the parser rejects (e.g. 'C6add6'): nothing
    # to compare; transposition itself only touches root and bass
    c.cover('grid symbol rejected by the parser')
    return
  c.cover('parseable symbol')
  r1, b1, p1, q1 = _ref(cs, out)
  c.check(r1 == (r0 + kk) % 12, 'root moved by k mod 12')
  c.check(b1 == (b0 + kk) % 12, 'bass moved by k mod 12')
  c.check(p1 == sorted((p + kk) % 12 for p in p0), 'pitch classes moved by k')
  c.check(q1 == q0, 'quality unchanged')
  root_str, kind, mods, bass_str = cs._split_chord_symbol(figure)
  root2, kind2, mods2, bass2 = cs._split_chord_symbol(out)
  c.check(kind2 == kind and mods2 == mods, 'kind and modifications unchanged')


def h_ns_chords(c):
  """transpose_note_sequence rewrites chord annotations, drops them on
  request."""
  pb, sl = c.pb, c.mod('sequences_lib')
  cs = c.mod('chord_symbols_lib')
  TA = pb.NoteSequence.TextAnnotation
  figure = c.params['figure']
  ns = pb.NoteSequence()
  ns.text_annotations.add(time=1, text=figure, annotation_type=TA.CHORD_SYMBOL)
  ns.text_annotations.add(time=2, text=figure, annotation_type=TA.UNKNOWN)
  k = c.int('k', -127, 127)
  out, _ = sl.transpose_note_sequence(ns, k)
  kk = c.concretize(k % 12)
  r0, b0, p0, q0 = _ref(cs, figure)
  r1, b1, p1, q1 = _ref(cs, out.text_annotations[0].text)
  c.check((r1, b1, q1) == ((r0 + kk) % 12, (b0 + kk) % 12, q0) and
          p1 == sorted((p + kk) % 12 for p in p0),
          'chord annotation moved by k mod 12')
  c.check(out.text_annotations[1].text == figure, 'non-chord text untouched')
  out2, _ = sl.transpose_note_sequence(ns, k, transpose_chords=False)
  c.check(len(out2.text_annotations) == 1 and
          out2.text_annotations[0].annotation_type == TA.UNKNOWN,
          'transpose_chords=False removes exactly the chord symbols')


def h_melody(c):
  L = c.params['L']
  ml = c.mod('melodies_lib')
  ev = [c.int('e%d' % i, -2, 127) for i in range(L)]
  k = c.int('k', -127, 127)
  lo = c.int('lo', 0, 116)
  hi = c.int('hi', 12, 128)
  c.assume(hi - lo >= 12)
  m = ml.Melody(list(ev))
  # the constructor canonicalises leading note-offs; the stored events are the
  # reference
  ev = list(m)
  m.transpose(k, lo, hi)
  res = list(m)
  c.check(len(res) == L, 'length unchanged')
  for e, r in zip(ev, res):
    c.check(c.If(e < 0, c.eq(r, e),
                 c.And(r >= lo, r < hi, c.eq((r - e - k) % 12, 0))),
            'specials untouched; notes folded into [min,max) keeping e+k mod 12')
    c.check(c.Implies(c.And(e >= 0, e + k >= lo, e + k < hi), c.eq(r, e + k)),
            'a note whose target is inside [min,max) moves by exactly k')
  # the documented default range is every MIDI pitch, 0..127
  m5 = ml.Melody(list(ev))
  m5.transpose(k)
  for e, r in zip(ev, list(m5)):
    c.check(c.If(e < 0, c.eq(r, e),
                 c.And(r >= 0, r <= 127, c.eq((r - e - k) % 12, 0),
                       c.Implies(c.And(e + k >= 0, e + k <= 127),
                                 c.eq(r, e + k)))),
            'default range: notes move by exactly k wherever e+k is a MIDI '
            'pitch')
  m.transpose(-k, lo, hi)
  for e, r in zip(ev, list(m)):
    c.check(c.If(e < 0, c.eq(r, e), c.eq((r - e) % 12, 0)),
            'transpose(k) then transpose(-k) preserves pitch classes')
  m2 = ml.Melody(list(ev))
  m2.transpose(12, lo, hi)
  for e, r in zip(ev, list(m2)):
    c.check(c.If(e < 0, c.eq(r, e), c.eq((r - e) % 12, 0)),
            'transpose(12) preserves pitch classes')
  m3 = ml.Melody(list(ev))
  amt = m3.squash(lo, hi)
  m4 = ml.Melody(list(ev))
  m4.transpose(0, lo, hi)
  c.check(amt == 0 and c.And([c.eq(a, b) for a, b in zip(list(m3), list(m4))]
                             or [True]),
          'squash without a key = transpose(0)')
  if L:
    c.cover('note folded from below', c.And(ev[0] >= 0, ev[0] + k < lo))
    c.cover('note folded from above', c.And(ev[0] >= 0, ev[0] + k >= hi))


def h_progression(c):
  cl = c.mod('chords_lib')
  ls = c.mod('lead_sheets_lib')
  ml = c.mod('melodies_lib')
  cs = c.mod('chord_symbols_lib')
  figs = c.params['figures']
  k = c.int('k', -127, 127)
  prog = cl.ChordProgression(list(figs))
  prog.transpose(k)
  kk = c.concretize(k % 12)
  for f, g in zip(figs, list(prog)):
    if f == 'N.C.':
      c.check(g == 'N.C.', 'no-chord untouched')
      continue
    r0, b0, p0, q0 = _ref(cs, f)
    r1, b1, p1, q1 = _ref(cs, g)
    c.check((r1, b1, q1) == ((r0 + kk) % 12, (b0 + kk) % 12, q0) and
            p1 == sorted((p + kk) % 12 for p in p0),
            'progression chord moved by k mod 12')
  ev = [c.int('e%d' % i, -2, 127) for i in range(len(figs))]
  sheet = ls.LeadSheet(ml.Melody(list(ev)), cl.ChordProgression(list(figs)))
  ev = list(sheet.melody)
  sheet.transpose(k)
  for e, r in zip(ev, list(sheet.melody)):
    c.check(c.If(e < 0, c.eq(r, e),
                 c.And(r >= 0, r < 128, c.eq((r - e - k) % 12, 0),
                       c.Implies(c.And(e + k >= 0, e + k < 128),
                                 c.eq(r, e + k)))),
            'lead sheet melody moved by k (folded into 0..127)')
  for f, g in zip(figs, list(sheet.chords)):
    if f != 'N.C.':
      c.check(cs.chord_symbol_root(g) == (cs.chord_symbol_root(f) + kk) % 12,
              'lead sheet chord root moved by k mod 12')


def h_squash(c):
  """Melody.squash / LeadSheet.squash to a target key: every note moves by the
  returned amount modulo 12 and lands in [min, max), specials stay, the lead
  sheet's chords move by the same amount (key histogram / argmax via
  np-lite)."""
  ml = c.mod('melodies_lib')
  cl = c.mod('chords_lib')
  ls = c.mod('lead_sheets_lib')
  cs = c.mod('chord_symbols_lib')
  L = c.params['L']
  ev = [c.int('e%d' % i, -2, 127) for i in range(L)]
  key = c.int('key', 0, 11)
  lo = c.int('lo', 0, 116)
  hi = c.int('hi', 12, 128)
  c.assume(hi - lo >= 12)
  m = ml.Melody(list(ev))
  ev = list(m)
  amt = m.squash(lo, hi, key)
  res = list(m)
  c.check(len(res) == L, 'length unchanged')
  for e, r in zip(ev, res):
    c.check(c.If(e < 0, c.eq(r, e),
                 c.And(r >= lo, r < hi, c.eq((r - e - amt) % 12, 0))),
            'specials untouched; notes moved by the returned amount mod 12 '
            'into [min,max)')
  figs = c.params.get('figures')
  if figs:
    sheet = ls.LeadSheet(ml.Melody(list(ev)),
                         cl.ChordProgression(list(figs[:L])))
    amt2 = sheet.squash(lo, hi, key)
    c.check(c.eq(amt2, amt), 'lead sheet squash moves by the melody amount')
    kk = c.concretize(amt2 % 12)
    for f, g in zip(figs, list(sheet.chords)):
      if f != 'N.C.':
        c.check(cs.chord_symbol_root(g) == (cs.chord_symbol_root(f) + kk) % 12,
                'lead sheet chords moved by the same amount mod 12')
  c.cover('a real transposition', c.Not(c.eq(amt % 12, 0)))


def h_clamp(c):
  sl = c.mod('sequences_lib')
  amt = c.int('amt', -127, 127)
  nmin = c.int('nmin', 0, 127)
  nmax = c.int('nmax', 0, 127)
  lo = c.int('lo', 0, 127)
  hi = c.int('hi', 0, 127)
  c.assume(c.And(lo <= nmin, nmin <= nmax, nmax <= hi))
  r = sl._clamp_transpose(amt, nmin, nmax, lo, hi)
  c.check(c.And(nmin + r >= lo, nmax + r <= hi),
          'clamped amount keeps the sequence inside the allowed range')
  c.check(c.And(c.Implies(amt >= 0, c.And(r >= 0, r <= amt)),
                c.Implies(amt < 0, c.And(r <= 0, r >= amt))),
          'clamped amount has the sign and at most the magnitude of the request')


def h_augment(c):
  N = c.params['N']
  pb, sl = c.pb, c.mod('sequences_lib')
  ns = pb.NoteSequence()
  lo = c.int('lo', 0, 127)
  hi = c.int('hi', 0, 127)
  c.assume(lo <= hi)
  ps = []
  for i in range(N):
    p = c.int('n%d_p' % i, 0, 127)
    c.assume(c.And(lo <= p, p <= hi))
    d = c.bool('n%d_d' % i) if c.params.get('drums') else False
    s = c.real('n%d_s' % i, 0)
    e = c.real('n%d_e' % i, 0)
    c.assume(e >= s)
    ns.notes.add(pitch=p, velocity=64, start_time=s, end_time=e, is_drum=d)
    ps.append((p, d))
  tmin = c.int('tmin', -24, 24)
  tmax = c.int('tmax', -24, 24)
  c.assume(tmin <= tmax)
  smin = c.real('smin', 0.5, 2)
  smax = c.real('smax', 0.5, 2)
  c.assume(smin <= smax)
  if c.params.get('delete'):
    # delete_out_of_range_notes=True: the amount comes from the requested
    # interval unclamped; exactly the pitched notes it pushes out are deleted
    out = sl.augment_note_sequence(ns, smin, smax, tmin, tmax, lo, hi,
                                   delete_out_of_range_notes=True)
    c.check(len(out.notes) <= N, 'no note invented')
    kept = list(out.notes)
    for m in kept:
      c.check(c.Or(m.is_drum, c.And(m.pitch >= lo, m.pitch <= hi)),
              'every kept pitched note lies inside the allowed range')
    # one common amount k in [tmin, tmax] explains which notes survive
    ok = []
    for k in range(-24, 25):
      surv = [c.Or(d, c.And(p + k >= lo, p + k <= hi)) for p, d in ps]
      ok.append(c.And(tmin <= k, k <= tmax,
                      c.eq(len(kept), c.Count(surv))))
    c.check(c.Or(ok), 'the survivors are those of one amount of the '
                      'requested interval')
    return
  out = sl.augment_note_sequence(ns, smin, smax, tmin, tmax, lo, hi,
                                 delete_out_of_range_notes=False)
  c.check(len(out.notes) == N, 'no note deleted')
  shifts = []
  for (p, d), m in zip(ps, out.notes):
    c.check(c.Or(d, c.And(m.pitch >= lo, m.pitch <= hi)),
            'every pitch stays inside the allowed range')
    shifts.append((d, m.pitch - p))
  for d, sft in shifts:
    # the requested interval is clamped towards 0 (documented), so only the
    # magnitude bound is part of the contract
    c.check(c.Or(d, c.And(sft >= c.Min(tmin, 0), sft <= c.Max(tmax, 0))),
            'transposition never exceeds the requested interval')
  for (d1, s1) in shifts:
    for (d2, s2) in shifts:
      c.check(c.Or(d1, d2, c.eq(s1, s2)), 'all notes moved by the same amount')


HARNESSES = {
    'h_transpose_ns': h_transpose_ns,
    'h_spelling': h_spelling,
    'h_chord_symbol': h_chord_symbol,
    'h_ns_chords': h_ns_chords,
    'h_melody': h_melody,
    'h_progression': h_progression,
    'h_clamp': h_clamp,
    'h_squash': h_squash,
    'h_augment': h_augment,
}

_ROOTS_QUICK = ['C', 'F#', 'Bb', 'E', 'Cb', 'B#', 'Abb', 'G##']
_ROOTS_ALL = [s + a for s in 'ABCDEFG' for a in ('', '#', 'b', '##', 'bb')]
_KINDS_QUICK = ['', 'm', '7', 'maj7', 'dim', '+', 'm7b5', 'sus', '6', '13']
_MODS = ['', '(b9)', 'add6', '(no3)']


def _kinds_all():
  """First abbreviation of every chord kind, read from the working tree."""
  import ast  # pylint: disable=g-import-not-at-top
  import os  # pylint: disable=g-import-not-at-top
  repo = os.environ.get('NOTE_SEQ_REPO', '/repo')
  with open(os.path.join(repo, 'note_seq', 'chord_symbols_lib.py')) as f:
    tree = ast.parse(f.read())
  for n in tree.body:
    if isinstance(n, ast.Assign) and getattr(n.targets[0], 'id',
                                             None) == '_CHORD_KINDS':
      kinds = ast.literal_eval(n.value)
      return [abbrevs[0] for abbrevs, _ in kinds] + [
          abbrevs[-1] for abbrevs, _ in kinds if len(abbrevs) > 1
      ]
  return _KINDS_QUICK


def jobs(tier):
  J = []

  def add(h, budget=200, required=True, **params):
    J.append({'harness': h, 'params': params, 'budget_s': budget,
              'required': required})

  deep = tier == 'thorough'
  add('h_transpose_ns', N=1, in_place=False)
  add('h_transpose_ns', N=1, in_place=True)
  add('h_transpose_ns', N=2, in_place=False)
  add('h_transpose_ns', N=1, in_place=False, transpose_chords=False)
  for st in 'ABCDEFG':
    add('h_spelling', step=st)
  figs = []
  for i, r in enumerate(_ROOTS_QUICK):
    for j, kd in enumerate(_KINDS_QUICK):
      if (i + j) % 2 == 0:
        figs.append(r + kd + _MODS[(i + j) % len(_MODS)] +
                    ('/' + _ROOTS_QUICK[(i + 3) % 8] if j % 3 == 0 else ''))
  for f in figs:
    add('h_chord_symbol', figure=f)
  add('h_ns_chords', figure='Cmaj7')
  add('h_ns_chords', figure='Ebm7b5/Bbb')
  for L in (1, 2):
    add('h_melody', L=L)
  add('h_progression', figures=['C', 'N.C.'])
  add('h_squash', L=1, figures=['Am'])
  add('h_squash', L=2, figures=['C', 'F#m7/A'], budget=900)
  add('h_progression', figures=['F#m7/A', 'Bb13'])
  add('h_clamp')
  add('h_augment', N=1)
  add('h_augment', N=2)
  add('h_augment', N=2, delete=True, budget=600)
  if deep:
    add('h_transpose_ns', N=2, in_place=True, budget=900)
    add('h_transpose_ns', N=3, in_place=False, budget=2400, required=False)
    add('h_melody', L=3, budget=900)
    add('h_melody', L=4, budget=2400, required=False)
    add('h_augment', N=2, drums=True, budget=900)
    add('h_augment', N=3, budget=1800, required=False)
    kinds = _kinds_all()
    n = 0
    for r in _ROOTS_ALL:
      for kd in kinds:
        n += 1
        mod = _MODS[n % len(_MODS)]
        bass = '/' + _ROOTS_ALL[(n * 7) % len(_ROOTS_ALL)] if n % 3 == 0 else ''
        add('h_chord_symbol', figure=r + kd + mod + bass, budget=300)
  return J
