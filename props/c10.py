"""C10 -- transposition shifts every pitch, key and chord by the same interval."""
from props import common as K

META = {
    'level': 'model_checking',
    'level_text':
        'The real transpose_note_sequence, _transpose_pitch_class, '
        'transpose_chord_symbol, Melody/ChordProgression/LeadSheet.transpose, '
        '_clamp_transpose and augment_note_sequence (random replaced by a '
        'nondeterministic stub) are executed with the interval k, the allowed '
        'range, pitches, alterations, melody events and note-range symbolic; '
        'on every path the solver shows the shift-by-k (mod 12 for keys, '
        'chords and folded melody notes), the exact deletion set and count and '
        'that nothing else moves.',
    'level_note':
        'Trusted: z3 (integers), symproto, the chord-symbol *parser* of the '
        'same module as the reference for what a transposed chord string '
        'denotes. Chord symbol strings are concrete per job (the regex parser '
        'needs concrete text): the symbol grid is data enumeration, k is '
        'symbolic.',
    'functions': [('sequences_lib', 'transpose_note_sequence'),
                  ('sequences_lib', '_clamp_transpose'),
                  ('sequences_lib', 'augment_note_sequence'),
                  ('chord_symbols_lib', '_transpose_pitch_class'),
                  ('chord_symbols_lib', 'transpose_chord_symbol'),
                  ('melodies_lib', 'Melody.transpose'),
                  ('melodies_lib', 'Melody.squash'),
                  ('chords_lib', 'ChordProgression.transpose'),
                  ('lead_sheets_lib', 'LeadSheet.transpose'),
                  ('lead_sheets_lib', 'LeadSheet.squash'),
                  ('melodies_lib', 'Melody.get_major_key'),
                  ('melodies_lib', 'Melody.get_major_key_histogram'),
                  ('chord_symbols_lib', '_split_chord_symbol')],
    'assumptions': [
        'pitches 0..127, k in -127..127, allowed range within 0..127',
        'total_time after transposition is only required to cover the kept '
        'notes and not to exceed the input total_time (the statement\'s "all '
        'times alone" is read as note/event times)',
        'chord symbols come from a grid assembled from the module\'s own root '
        'and kind tables (concrete strings), k symbolic',
        'Melody.squash / LeadSheet.squash with a target key: every note '
        'moves by the RETURNED amount mod 12 into [min,max), chords by the '
        'same amount; the amount itself is checked against the docstrings '
        '(target key - get_major_key mod 12, octave that centres the melody; '
        'get_major_key = lowest-index major key holding most notes; key '
        'histogram and argmax run through np-lite)',
        'keyword defaults (transpose_note_sequence, augment_note_sequence, '
        'Melody/LeadSheet.transpose) are exercised as documented: 0..127 / '
        '[0,128), chords transposed, not in place, no deletion',
        'malformed chord symbols (7 concrete strings) must raise '
        'ChordSymbolError; transpose_chords=False never interprets them',
        'augment_note_sequence: amount in the requested interval truncated to '
        'the room when that is non-empty (empty truncation undocumented, only '
        'the magnitude bound is required); delete mode with pitches anywhere '
        'in 0..127: one k of the interval explains survivors and their '
        'pitches; ValueError iff a (min,max) pair is reversed; note times '
        'scaled by one factor in [min_stretch, max_stretch]; total_time only '
        'bounded above',
        '_clamp_transpose exact value only for sequences already inside the '
        'allowed range (outside it the docstring promises nothing)',
    ],
    'bounds': {
        'quick': 'N<=2 notes (0..2), <=2 key signatures, <=3 chord '
                 'annotations + BEAT/UNKNOWN text, 1 tempo / time signature / '
                 'pitch bend / control change; melody length <=2 (major key '
                 '<=3); 40 chord symbols; alter in [-3,3]',
        'thorough': 'N<=3; melody length <=4; ~700 chord symbols (35 roots x '
                    'first abbreviation of every kind x modifications x bass)',
    },
    'outside': ['longer melodies / more notes',
                'spelling (enharmonic choice) of transposed symbols',
                'sequences without key signatures',
                '_clamp_transpose / augment on sequences already outside the '
                'allowed range without deletion',
                'exact total_time after transposition'],
}


def h_transpose_ns(c):
  """params: N, in_place, transpose_chords; defaults=True calls
  transpose_note_sequence(ns, k) with every keyword left at its documented
  default (range 0..127, chords transposed, a copy is returned); rich=[fig,
  fig] adds a second key signature, two real chord symbols, a BEAT annotation,
  a tempo, a time signature, a pitch bend and the remaining note fields."""
  N = c.params['N']
  pb, sl = c.pb, c.mod('sequences_lib')
  TA = pb.NoteSequence.TextAnnotation
  rich = c.params.get('rich')
  defaults = c.params.get('defaults', False)
  ns = pb.NoteSequence()
  notes = []
  extra = ('program', 'numerator', 'denominator', 'voice', 'part',
           'quantized_start_step', 'quantized_end_step')
  for i in range(N):
    d = dict(
        pitch=c.int('n%d_p' % i, 0, 127),
        velocity=c.int('n%d_v' % i, 1, 127),
        start_time=c.real('n%d_s' % i, 0),
        end_time=c.real('n%d_e' % i, 0),
        is_drum=c.bool('n%d_d' % i),
        pitch_name=c.int('n%d_pn' % i, 0, 35),
        instrument=c.int('n%d_i' % i, 0, 3))
    if rich:
      for j, f in enumerate(extra):
        d[f] = c.int('n%d_x%d' % (i, j), 0, 16)
    c.assume(d['end_time'] >= d['start_time'])
    ns.notes.add(**d)
    notes.append(d)
  tt = c.real('tt', 0)
  for n in notes:
    c.assume(n['end_time'] <= tt)
  ns.total_time = tt
  key = c.int('key', 0, 11)
  ns.key_signatures.add(time=0, key=key, mode=c.int('mode', 0, 1))
  keys = [key]
  ns.text_annotations.add(time=0, text='free text', annotation_type=TA.UNKNOWN)
  ns.text_annotations.add(time=0, text='N.C.', annotation_type=TA.CHORD_SYMBOL)
  ns.control_changes.add(time=c.real('cc_t', 0), control_number=64,
                         control_value=100)
  if rich:
    key2 = c.int('key2', 0, 11)
    ns.key_signatures.add(time=c.real('ks2_t', 0), key=key2,
                          mode=c.int('mode2', 0, 1))
    keys.append(key2)
    ns.text_annotations.add(time=c.real('ta2_t', 0), text=rich[0],
                            annotation_type=TA.CHORD_SYMBOL)
    ns.text_annotations.add(time=c.real('ta3_t', 0), text='beat',
                            annotation_type=TA.BEAT)
    ns.text_annotations.add(time=c.real('ta4_t', 0), text=rich[1],
                            annotation_type=TA.CHORD_SYMBOL)
    ns.tempos.add(time=c.real('tp_t', 0), qpm=c.real('tp_q', 10, 480))
    ns.time_signatures.add(time=c.real('ts_t', 0),
                           numerator=c.int('ts_n', 1, 12), denominator=4)
    ns.pitch_bends.add(time=c.real('pb_t', 0), bend=c.int('pb_b', -8192, 8191),
                       instrument=c.int('pb_i', 0, 3))
  k = c.int('k', -127, 127)
  before = c.snapshot(ns)
  if defaults:
    # every keyword at its documented default: all MIDI pitches 0..127 are
    # allowed, chord symbols are transposed, the input is not edited
    lo, hi, in_place, tchords = 0, 127, False, True
    out, deleted = sl.transpose_note_sequence(ns, k)
  else:
    lo = c.int('lo', 0, 127)
    hi = c.int('hi', 0, 127)
    in_place = c.params['in_place']
    tchords = c.params.get('transpose_chords', True)
    out, deleted = sl.transpose_note_sequence(ns, k, lo, hi,
                                              transpose_chords=tchords,
                                              in_place=in_place)
  if in_place:
    c.check(out is ns, 'in_place=True returns the same object')
  else:
    c.check(out is not ns, 'in_place=False returns a copy')
    c.check(c.msg_eq(ns, before), 'input unchanged')
  fields = ('pitch', 'velocity', 'start_time', 'end_time', 'is_drum',
            'pitch_name', 'instrument') + (extra if rich else ())
  exp = []
  for n in notes:
    keep = c.Or(n['is_drum'], c.And(lo <= n['pitch'] + k, n['pitch'] + k <= hi))
    newp = c.If(n['is_drum'], n['pitch'], n['pitch'] + k)
    newname = c.If(n['is_drum'], n['pitch_name'], 0)
    exp.append((keep, (newp, n['velocity'], n['start_time'], n['end_time'],
                       n['is_drum'], newname, n['instrument']) +
                tuple(n[f] for f in fields[7:])))
  got = [tuple(getattr(m, f) for f in fields) for m in out.notes]
  c.check(K.multiset_eq(c, got, exp),
          'kept notes = in-range or drum notes, pitched ones moved by k')
  c.check(c.eq(deleted, N - c.Count([cd for cd, _ in exp])),
          'deleted count exact')
  for m in out.notes:
    c.check(out.total_time >= m.end_time, 'total_time covers kept notes')
  # "all times alone": dropping notes may shorten the sequence, nothing may
  # lengthen it
  c.check(out.total_time <= tt, 'total_time never grows')
  c.check(c.eq(out.key_signatures[0].key, (key + k) % 12),
          'key signature moved by k mod 12')
  c.check(len(out.key_signatures) == len(keys) and bool(c.And([
      c.And(c.eq(o.key, (ky + k) % 12), c.eq(o.mode, b.mode),
            c.eq(o.time, b.time))
      for o, b, ky in zip(out.key_signatures, before.key_signatures, keys)])),
          'every key signature moved by k mod 12, mode and time untouched')
  n_ta = len(before.text_annotations)
  if tchords:
    c.check(c.And(c.msg_eq(out.text_annotations[0], before.text_annotations[0]),
                  c.msg_eq(out.text_annotations[1], before.text_annotations[1]),
                  c.msg_eq(out.control_changes[0], before.control_changes[0])),
            'non-chord annotations, N.C. and control changes untouched')
    c.check(len(out.text_annotations) == n_ta and len(out.control_changes) == 1,
            'no annotation or control change added or removed')
  else:
    # transpose_chords=False: chord symbols are removed, everything else
    # (including the key shift above) is as before
    c.check(len(out.text_annotations) == (2 if rich else 1) and bool(c.And(
        c.msg_eq(out.text_annotations[0], before.text_annotations[0]),
        c.msg_eq(out.control_changes[0], before.control_changes[0]))),
            'transpose_chords=False removes the chord symbols only')
  if rich:
    cs = c.mod('chord_symbols_lib')
    c.check(len(out.tempos) == 1 and len(out.time_signatures) == 1 and
            len(out.pitch_bends) == 1 and bool(c.And(
                c.msg_eq(out.tempos[0], before.tempos[0]),
                c.msg_eq(out.time_signatures[0], before.time_signatures[0]),
                c.msg_eq(out.pitch_bends[0], before.pitch_bends[0]))),
            'tempo, time signature and pitch bend untouched')
    if tchords:
      kk = c.concretize(k % 12)
      c.check(c.msg_eq(out.text_annotations[3], before.text_annotations[3]),
              'BEAT annotation untouched')
      for idx, fig in ((2, rich[0]), (4, rich[1])):
        o, b = out.text_annotations[idx], before.text_annotations[idx]
        r0, b0, p0, q0 = _ref(cs, fig)
        r1, b1, p1, q1 = _ref(cs, o.text)
        c.check((r1, b1, q1) == ((r0 + kk) % 12, (b0 + kk) % 12, q0) and
                p1 == sorted((p + kk) % 12 for p in p0),
                'every chord annotation moved by k mod 12')
        c.check(c.And(c.eq(o.time, b.time),
                      c.eq(o.annotation_type, b.annotation_type)),
                'chord annotation time and type untouched')
    else:
      c.check(c.msg_eq(out.text_annotations[1], before.text_annotations[3]),
              'BEAT annotation survives the removal of chord symbols')
  if notes:
    c.cover('a note falls just outside the allowed range',
            c.And(c.Not(notes[0]['is_drum']),
                  c.eq(notes[0]['pitch'] + k, hi + 1)))
    c.cover('a drum note outside the range is kept',
            c.And(notes[0]['is_drum'], notes[0]['pitch'] + k > hi))


def h_spelling(c):
  cs = c.mod('chord_symbols_lib')
  step = c.params['step']
  alter = c.int('alter', -3, 3)
  k = c.int('k', -127, 127)
  st2, al2 = cs._transpose_pitch_class(step, alter, k)
  c.check(st2 in 'ABCDEFG', 'result step is a letter')
  c.check(c.eq(cs._pitch_class_to_midi(st2, al2),
               (cs._pitch_class_to_midi(step, alter) + k) % 12),
          'spelling walk moves the pitch class by k mod 12')


def _ref(cs, figure):
  root = cs.chord_symbol_root(figure)
  bass = cs.chord_symbol_bass(figure)
  pcs = sorted(set(p % 12 for p in cs.chord_symbol_pitches(figure)))
  qual = cs.chord_symbol_quality(figure)
  return root, bass, pcs, qual


def h_chord_symbol(c):
  cs = c.mod('chord_symbols_lib')
  figure = c.params['figure']
  k = c.int('k', -127, 127)
  out = cs.transpose_chord_symbol(figure, k)
  # k is concretised by the walk (12 residues, closed by the solver); the
  # reference interpretation below is the module's own parser on both strings
  kk = c.concretize(k % 12)
  try:
    r0, b0, p0, q0 = _ref(cs, figure)
  except cs.ChordSymbolError:
    # the grid produced a symbol the parser rejects (e.g. 'C6add6'): nothing
    # to compare; transposition itself only touches root and bass
    c.cover('grid symbol rejected by the parser')
    return
  c.cover('parseable symbol')
  r1, b1, p1, q1 = _ref(cs, out)
  c.check(r1 == (r0 + kk) % 12, 'root moved by k mod 12')
  c.check(b1 == (b0 + kk) % 12, 'bass moved by k mod 12')
  c.check(p1 == sorted((p + kk) % 12 for p in p0), 'pitch classes moved by k')
  c.check(q1 == q0, 'quality unchanged')
  root_str, kind, mods, bass_str = cs._split_chord_symbol(figure)
  root2, kind2, mods2, bass2 = cs._split_chord_symbol(out)
  c.check(kind2 == kind and mods2 == mods, 'kind and modifications unchanged')


def h_ns_chords(c):
  """transpose_note_sequence rewrites chord annotations, drops them on
  request."""
  pb, sl = c.pb, c.mod('sequences_lib')
  cs = c.mod('chord_symbols_lib')
  TA = pb.NoteSequence.TextAnnotation
  figure = c.params['figure']
  ns = pb.NoteSequence()
  ns.text_annotations.add(time=1, text=figure, annotation_type=TA.CHORD_SYMBOL)
  ns.text_annotations.add(time=2, text=figure, annotation_type=TA.UNKNOWN)
  k = c.int('k', -127, 127)
  before = c.snapshot(ns)
  out, _ = sl.transpose_note_sequence(ns, k)
  c.check(out is not ns and bool(c.msg_eq(ns, before)),
          'default in_place: a copy is returned, the input keeps its chords')
  kk = c.concretize(k % 12)
  r0, b0, p0, q0 = _ref(cs, figure)
  r1, b1, p1, q1 = _ref(cs, out.text_annotations[0].text)
  c.check((r1, b1, q1) == ((r0 + kk) % 12, (b0 + kk) % 12, q0) and
          p1 == sorted((p + kk) % 12 for p in p0),
          'chord annotation moved by k mod 12')
  c.check(out.text_annotations[1].text == figure, 'non-chord text untouched')
  out2, _ = sl.transpose_note_sequence(ns, k, transpose_chords=False)
  c.check(len(out2.text_annotations) == 1 and
          out2.text_annotations[0].annotation_type == TA.UNKNOWN,
          'transpose_chords=False removes exactly the chord symbols')


def h_bad_symbol(c):
  """A chord symbol the grammar does not generate raises ChordSymbolError
  (documented for transpose_chord_symbol, ChordProgression.transpose and
  transpose_note_sequence); with transpose_chords=False nothing is interpreted,
  the symbol is just removed."""
  pb, sl = c.pb, c.mod('sequences_lib')
  cs = c.mod('chord_symbols_lib')
  cl = c.mod('chords_lib')
  TA = pb.NoteSequence.TextAnnotation
  figure = c.params['figure']
  k = c.int('k', -127, 127)
  _, err = c.raises(cs.transpose_chord_symbol, figure, k)
  c.check(isinstance(err, cs.ChordSymbolError),
          'transpose_chord_symbol rejects a malformed symbol')
  prog = cl.ChordProgression(['N.C.', figure])
  _, err = c.raises(prog.transpose, k)
  c.check(isinstance(err, cs.ChordSymbolError),
          'ChordProgression.transpose rejects a malformed symbol')
  ns = pb.NoteSequence()
  ns.notes.add(pitch=60, velocity=64, start_time=0, end_time=1)
  ns.total_time = 1
  ns.text_annotations.add(time=0, text='C', annotation_type=TA.CHORD_SYMBOL)
  ns.text_annotations.add(time=1, text=figure, annotation_type=TA.CHORD_SYMBOL)
  _, err = c.raises(sl.transpose_note_sequence, ns, k)
  c.check(isinstance(err, cs.ChordSymbolError),
          'transpose_note_sequence rejects a malformed chord symbol')
  res, err = c.raises(sl.transpose_note_sequence, ns, k,
                      transpose_chords=False)
  c.check(err is None and len(res[0].text_annotations) == 0,
          'transpose_chords=False removes symbols without interpreting them')


def h_melody(c):
  L = c.params['L']
  ml = c.mod('melodies_lib')
  ev = [c.int('e%d' % i, -2, 127) for i in range(L)]
  k = c.int('k', -127, 127)
  lo = c.int('lo', 0, 116)
  hi = c.int('hi', 12, 128)
  c.assume(hi - lo >= 12)
  m = ml.Melody(list(ev))
  # the constructor canonicalises leading note-offs; the stored events are the
  # reference
  ev = list(m)
  m.transpose(k, lo, hi)
  res = list(m)
  c.check(len(res) == L, 'length unchanged')
  for e, r in zip(ev, res):
    c.check(c.If(e < 0, c.eq(r, e),
                 c.And(r >= lo, r < hi, c.eq((r - e - k) % 12, 0))),
            'specials untouched; notes folded into [min,max) keeping e+k mod 12')
    c.check(c.Implies(c.And(e >= 0, e + k >= lo, e + k < hi), c.eq(r, e + k)),
            'a note whose target is inside [min,max) moves by exactly k')
  # the documented default range is every MIDI pitch, 0..127
  m5 = ml.Melody(list(ev))
  m5.transpose(k)
  for e, r in zip(ev, list(m5)):
    c.check(c.If(e < 0, c.eq(r, e),
                 c.And(r >= 0, r <= 127, c.eq((r - e - k) % 12, 0),
                       c.Implies(c.And(e + k >= 0, e + k <= 127),
                                 c.eq(r, e + k)))),
            'default range: notes move by exactly k wherever e+k is a MIDI '
            'pitch')
  m.transpose(-k, lo, hi)
  for e, r in zip(ev, list(m)):
    c.check(c.If(e < 0, c.eq(r, e), c.eq((r - e) % 12, 0)),
            'transpose(k) then transpose(-k) preserves pitch classes')
  m2 = ml.Melody(list(ev))
  m2.transpose(12, lo, hi)
  for e, r in zip(ev, list(m2)):
    c.check(c.If(e < 0, c.eq(r, e), c.eq((r - e) % 12, 0)),
            'transpose(12) preserves pitch classes')
  m3 = ml.Melody(list(ev))
  amt = m3.squash(lo, hi)
  m4 = ml.Melody(list(ev))
  m4.transpose(0, lo, hi)
  c.check(amt == 0 and c.And([c.eq(a, b) for a, b in zip(list(m3), list(m4))]
                             or [True]),
          'squash without a key = transpose(0)')
  if L:
    c.cover('note folded from below', c.And(ev[0] >= 0, ev[0] + k < lo))
    c.cover('note folded from above', c.And(ev[0] >= 0, ev[0] + k >= hi))


def _folded(c, e, r, k, lo, hi):
  """Documented result of transposing melody event e by k into [lo, hi)."""
  return c.If(e < 0, c.eq(r, e),
              c.And(r >= lo, r < hi, c.eq((r - e - k) % 12, 0),
                    c.Implies(c.And(e + k >= lo, e + k < hi), c.eq(r, e + k))))


def h_melody_kw(c):
  """Melody.transpose with one bound given and the other left at its default
  (min_note=0, max_note=128), positionally and by keyword; the melody's
  start step and bar length are not part of what transposition changes."""
  L = c.params['L']
  ml = c.mod('melodies_lib')
  ev = [c.int('e%d' % i, -2, 127) for i in range(L)]
  k = c.int('k', -127, 127)
  lo = c.int('lo', 0, 116)
  hi = c.int('hi', 12, 128)
  start = c.int('start', 0, 64)
  spb = c.int('spb', 1, 32)
  which = c.params['which']
  m = ml.Melody(list(ev), start_step=start, steps_per_bar=spb)
  ev = list(m)
  if which == 'min':
    m.transpose(k, lo)
    rng = (lo, 128)
  elif which == 'min_kw':
    m.transpose(k, min_note=lo)
    rng = (lo, 128)
  else:
    m.transpose(k, max_note=hi)
    rng = (0, hi)
  res = list(m)
  c.check(len(res) == L, 'length unchanged')
  for e, r in zip(ev, res):
    c.check(_folded(c, e, r, k, rng[0], rng[1]),
            'one bound given, the other at its default: notes folded into '
            '[min_note, 128) resp. [0, max_note)')
  c.check(c.And(c.eq(m.start_step, start), c.eq(m.steps_per_bar, spb),
                c.eq(m.end_step, start + L)),
          'start step, end step and bar length untouched')
  if L:
    c.cover('note folded', c.And(ev[0] >= 0, c.Or(ev[0] + k < rng[0],
                                                  ev[0] + k >= rng[1])))


def h_sheet(c):
  """LeadSheet.transpose(k, min_note, max_note): the melody is folded into the
  GIVEN range, every chord moves by k mod 12 (root, bass, pitch classes,
  quality), N.C. stays; LeadSheet.squash leaves the melody where Melody.squash
  is documented to put it."""
  cl = c.mod('chords_lib')
  ls = c.mod('lead_sheets_lib')
  ml = c.mod('melodies_lib')
  cs = c.mod('chord_symbols_lib')
  figs = c.params['figures']
  k = c.int('k', -127, 127)
  lo = c.int('lo', 0, 116)
  hi = c.int('hi', 12, 128)
  c.assume(hi - lo >= 12)
  ev = [c.int('e%d' % i, -2, 127) for i in range(len(figs))]
  sheet = ls.LeadSheet(ml.Melody(list(ev)), cl.ChordProgression(list(figs)))
  ev = list(sheet.melody)
  sheet.transpose(k, lo, hi)
  res = list(sheet.melody)
  c.check(len(res) == len(figs) and len(list(sheet.chords)) == len(figs),
          'lengths unchanged')
  for e, r in zip(ev, res):
    c.check(_folded(c, e, r, k, lo, hi),
            'lead sheet melody folded into the given [min_note, max_note)')
  kk = c.concretize(k % 12)
  for f, g in zip(figs, list(sheet.chords)):
    if f == 'N.C.':
      c.check(g == 'N.C.', 'lead sheet no-chord untouched')
      continue
    r0, b0, p0, q0 = _ref(cs, f)
    r1, b1, p1, q1 = _ref(cs, g)
    c.check((r1, b1, q1) == ((r0 + kk) % 12, (b0 + kk) % 12, q0) and
            p1 == sorted((p + kk) % 12 for p in p0),
            'lead sheet chord moved by k mod 12 (root, bass, pitch classes, '
            'quality)')
  c.cover('sheet note folded', c.And(ev[0] >= 0, c.Or(ev[0] + k < lo,
                                                      ev[0] + k >= hi)))


def h_progression(c):
  cl = c.mod('chords_lib')
  ls = c.mod('lead_sheets_lib')
  ml = c.mod('melodies_lib')
  cs = c.mod('chord_symbols_lib')
  figs = c.params['figures']
  k = c.int('k', -127, 127)
  prog = cl.ChordProgression(list(figs))
  prog.transpose(k)
  kk = c.concretize(k % 12)
  for f, g in zip(figs, list(prog)):
    if f == 'N.C.':
      c.check(g == 'N.C.', 'no-chord untouched')
      continue
    r0, b0, p0, q0 = _ref(cs, f)
    r1, b1, p1, q1 = _ref(cs, g)
    c.check((r1, b1, q1) == ((r0 + kk) % 12, (b0 + kk) % 12, q0) and
            p1 == sorted((p + kk) % 12 for p in p0),
            'progression chord moved by k mod 12')
  ev = [c.int('e%d' % i, -2, 127) for i in range(len(figs))]
  sheet = ls.LeadSheet(ml.Melody(list(ev)), cl.ChordProgression(list(figs)))
  ev = list(sheet.melody)
  sheet.transpose(k)
  for e, r in zip(ev, list(sheet.melody)):
    c.check(c.If(e < 0, c.eq(r, e),
                 c.And(r >= 0, r < 128, c.eq((r - e - k) % 12, 0),
                       c.Implies(c.And(e + k >= 0, e + k < 128),
                                 c.eq(r, e + k)))),
            'lead sheet melody moved by k (folded into 0..127)')
  for f, g in zip(figs, list(sheet.chords)):
    if f != 'N.C.':
      c.check(cs.chord_symbol_root(g) == (cs.chord_symbol_root(f) + kk) % 12,
              'lead sheet chord root moved by k mod 12')


_MAJOR_SCALE = (0, 2, 4, 5, 7, 9, 11)


def _is_major_key(c, ev, M):
  """M is the documented get_major_key of the events: the major key (0 = C)
  into which most notes fit, the lowest index among equals."""
  pcs = [e % 12 for e in ev]

  def cnt(key):
    return c.Sum([c.If(c.And(e >= 0, c.Or([c.eq(pc, (d + key) % 12)
                                            for d in _MAJOR_SCALE])), 1, 0)
                  for e, pc in zip(ev, pcs)] or [0])
  cs_ = [cnt(key) for key in range(12)]
  return c.And([cs_[M] >= cs_[j] for j in range(12)] +
               [cs_[M] > cs_[j] for j in range(M)])


def h_major_key(c):
  """Melody.get_major_key against its docstring."""
  ml = c.mod('melodies_lib')
  L = c.params['L']
  ev = [c.int('e%d' % i, -2, 127) for i in range(L)]
  m = ml.Melody(list(ev))
  ev = list(m)
  mk = m.get_major_key()
  c.check(c.Or([c.And(c.eq(mk, M), _is_major_key(c, ev, M))
                for M in range(12)]),
          'get_major_key = lowest major key holding the most notes')
  c.cover('key other than C', c.Not(c.eq(mk, 0)))


def h_squash(c):
  """Melody.squash / LeadSheet.squash to a target key: every note moves by the
  returned amount modulo 12 and lands in [min, max), specials stay, the lead
  sheet's chords move by the same amount (key histogram / argmax via
  np-lite)."""
  ml = c.mod('melodies_lib')
  cl = c.mod('chords_lib')
  ls = c.mod('lead_sheets_lib')
  cs = c.mod('chord_symbols_lib')
  L = c.params['L']
  ev = [c.int('e%d' % i, -2, 127) for i in range(L)]
  key = c.int('key', 0, 11)
  lo = c.int('lo', 0, 116)
  hi = c.int('hi', 12, 128)
  c.assume(hi - lo >= 12)
  m = ml.Melody(list(ev))
  ev = list(m)
  amt = m.squash(lo, hi, key)
  res = list(m)
  c.check(len(res) == L, 'length unchanged')
  for e, r in zip(ev, res):
    c.check(c.If(e < 0, c.eq(r, e),
                 c.And(r >= lo, r < hi, c.eq((r - e - amt) % 12, 0))),
            'specials untouched; notes moved by the returned amount mod 12 '
            'into [min,max)')
  figs = c.params.get('figures')
  if figs:
    sheet = ls.LeadSheet(ml.Melody(list(ev)),
                         cl.ChordProgression(list(figs[:L])))
    amt2 = sheet.squash(lo, hi, key)
    c.check(c.eq(amt2, amt), 'lead sheet squash moves by the melody amount')
    for e, r in zip(ev, list(sheet.melody)):
      c.check(c.If(e < 0, c.eq(r, e),
                   c.And(r >= lo, r < hi, c.eq((r - e - amt2) % 12, 0))),
              'lead sheet melody moved by the returned amount mod 12 into '
              '[min,max)')
    kk = c.concretize(amt2 % 12)
    for f, g in zip(figs, list(sheet.chords)):
      if f != 'N.C.':
        c.check(cs.chord_symbol_root(g) == (cs.chord_symbol_root(f) + kk) % 12,
                'lead sheet chords moved by the same amount mod 12')
  c.cover('a real transposition', c.Not(c.eq(amt % 12, 0)))


def h_clamp(c):
  sl = c.mod('sequences_lib')
  amt = c.int('amt', -127, 127)
  nmin = c.int('nmin', 0, 127)
  nmax = c.int('nmax', 0, 127)
  lo = c.int('lo', 0, 127)
  hi = c.int('hi', 0, 127)
  c.assume(c.And(lo <= nmin, nmin <= nmax, nmax <= hi))
  r = sl._clamp_transpose(amt, nmin, nmax, lo, hi)
  c.check(c.And(nmin + r >= lo, nmax + r <= hi),
          'clamped amount keeps the sequence inside the allowed range')
  c.check(c.And(c.Implies(amt >= 0, c.And(r >= 0, r <= amt)),
                c.Implies(amt < 0, c.And(r <= 0, r >= amt))),
          'clamped amount has the sign and at most the magnitude of the request')
  # "clamps": the request itself when it fits, otherwise the nearest amount
  # that does (the room lo-nmin <= 0 <= hi-nmax contains 0 by the assumption)
  c.check(c.eq(r, c.Max(lo - nmin, c.Min(hi - nmax, amt))),
          'clamped amount = the request limited to the room [lo-nmin, hi-nmax]')
  c.cover('request fits', c.And(amt != 0, c.eq(r, amt)))
  c.cover('request cut', c.And(r != 0, c.Not(c.eq(r, amt))))


def h_augment(c):
  """params: N, drums, delete; defaults=True leaves min_allowed_pitch,
  max_allowed_pitch and delete_out_of_range_notes at their documented defaults
  (0, 127, False); wide=True (delete mode) lets the input pitches lie anywhere
  in 0..127, also outside the allowed range."""
  N = c.params['N']
  pb, sl = c.pb, c.mod('sequences_lib')
  ns = pb.NoteSequence()
  defaults = c.params.get('defaults', False)
  wide = c.params.get('wide', False)
  if defaults:
    lo, hi = 0, 127
  else:
    lo = c.int('lo', 0, 127)
    hi = c.int('hi', 0, 127)
    c.assume(lo <= hi)
  ps = []
  vels = []
  for i in range(N):
    p = c.int('n%d_p' % i, 0, 127)
    if not wide:
      c.assume(c.And(lo <= p, p <= hi))
    d = c.bool('n%d_d' % i) if c.params.get('drums') else False
    s = c.real('n%d_s' % i, 0)
    e = c.real('n%d_e' % i, 0)
    c.assume(e >= s)
    v = c.int('n%d_v' % i, 1, 127) if (defaults or wide) else 64
    ns.notes.add(pitch=p, velocity=v, start_time=s, end_time=e, is_drum=d)
    ps.append((p, d))
    vels.append(v)
  tmin = c.int('tmin', -24, 24)
  tmax = c.int('tmax', -24, 24)
  c.assume(tmin <= tmax)
  smin = c.real('smin', 0.5, 2)
  smax = c.real('smax', 0.5, 2)
  c.assume(smin <= smax)
  if c.params.get('delete'):
    # delete_out_of_range_notes=True: the amount comes from the requested
    # interval unclamped; exactly the pitched notes it pushes out are deleted
    out = sl.augment_note_sequence(ns, smin, smax, tmin, tmax, lo, hi,
                                   delete_out_of_range_notes=True)
    c.check(out is ns, 'the sequence is modified in place and returned')
    c.check(len(out.notes) <= N, 'no note invented')
    kept = list(out.notes)
    for m in kept:
      c.check(c.Or(m.is_drum, c.And(m.pitch >= lo, m.pitch <= hi)),
              'every kept pitched note lies inside the allowed range')
    # one common amount k in [tmin, tmax] explains which notes survive
    ok = []
    ok2 = []
    got = [(m.pitch, m.is_drum, m.velocity) for m in kept]
    for k in range(-24, 25):
      surv = [c.Or(d, c.And(p + k >= lo, p + k <= hi)) for p, d in ps]
      ok.append(c.And(tmin <= k, k <= tmax,
                      c.eq(len(kept), c.Count(surv))))
      exp = [(sv, (c.If(d, p, p + k), d, v))
             for sv, (p, d), v in zip(surv, ps, vels)]
      ok2.append(c.And(tmin <= k, k <= tmax, K.multiset_eq(c, got, exp)))
    c.check(c.Or(ok), 'the survivors are those of one amount of the '
                      'requested interval')
    c.check(c.Or(ok2), 'one amount k of the requested interval explains the '
                       'result: survivors = notes with p+k in range, at p+k')
    if N:
      c.cover('a note is deleted', len(kept) < N)
    return
  if defaults:
    out = sl.augment_note_sequence(ns, smin, smax, tmin, tmax)
  else:
    out = sl.augment_note_sequence(ns, smin, smax, tmin, tmax, lo, hi,
                                   delete_out_of_range_notes=False)
  c.check(out is ns, 'the sequence is modified in place and returned')
  c.check(len(out.notes) == N, 'no note deleted')
  shifts = []
  for (p, d), m in zip(ps, out.notes):
    c.check(c.Or(d, c.And(m.pitch >= lo, m.pitch <= hi)),
            'every pitch stays inside the allowed range')
    shifts.append((d, m.pitch - p))
  for v, m in zip(vels, out.notes):
    c.check(c.eq(m.velocity, v), 'velocities untouched')
  for (p, d), m in zip(ps, out.notes):
    c.check(c.And(c.eq(m.is_drum, d), c.Implies(d, c.eq(m.pitch, p))),
            'drum notes keep their pitch')
  for d, sft in shifts:
    # the requested interval is clamped towards 0 (documented), so only the
    # magnitude bound is part of the contract
    c.check(c.Or(d, c.And(sft >= c.Min(tmin, 0), sft <= c.Max(tmax, 0))),
            'transposition never exceeds the requested interval')
  for (d1, s1) in shifts:
    for (d2, s2) in shifts:
      c.check(c.Or(d1, d2, c.eq(s1, s2)), 'all notes moved by the same amount')
  if N and not c.params.get('drums'):
    # "the interval [min_transpose, max_transpose] will be truncated such that
    # no out-of-bounds notes will ever be created": when part of the requested
    # interval fits the room [lo-nmin, hi-nmax], the amount comes from that
    # part (an empty truncation is not documented and not constrained here)
    nmin = c.Min([p for p, _ in ps])
    nmax = c.Max([p for p, _ in ps])
    t_lo = c.Max(tmin, lo - nmin)
    t_hi = c.Min(tmax, hi - nmax)
    for _, sft in shifts:
      c.check(c.Implies(t_lo <= t_hi, c.And(t_lo <= sft, sft <= t_hi)),
              'amount drawn from the requested interval truncated to the room')
    c.cover('requested interval entirely above 0 and it fits',
            c.And(tmin > 0, t_lo <= t_hi))


def h_augment_times(c):
  """augment_note_sequence stretches every time by one factor taken from
  [min_stretch_factor, max_stretch_factor] (documented); pitch handling is
  h_augment's."""
  N = c.params['N']
  pb, sl = c.pb, c.mod('sequences_lib')
  ns = pb.NoteSequence()
  ts = []
  for i in range(N):
    s = c.real('n%d_s' % i, 0)
    e = c.real('n%d_e' % i, 0)
    c.assume(e >= s)
    ns.notes.add(pitch=60 + i, velocity=64, start_time=s, end_time=e)
    ts.append((s, e))
  tt = c.real('tt', 0)
  for s, e in ts:
    c.assume(e <= tt)
  ns.total_time = tt
  smin = c.real('smin', 0.5, 2)
  smax = c.real('smax', 0.5, 2)
  c.assume(smin <= smax)
  out = sl.augment_note_sequence(ns, smin, smax, 0, 0)
  c.check(len(out.notes) == N, 'no note deleted')
  # total_time is left out: the transposition step resets it to the end of
  # the last kept note (see META assumptions), only its upper bound is
  # documented behaviour here
  got = [x for m in out.notes for x in (m.start_time, m.end_time)]
  want = [x for s, e in ts for x in (s, e)]
  c.check(out.total_time <= smax * tt, 'total_time stretched at most by max')
  for g, w in zip(got, want):
    c.check(c.And(g >= smin * w, g <= smax * w),
            'every time stretched by a factor within the requested interval')
  for g1, w1 in zip(got, want):
    for g2, w2 in zip(got, want):
      c.check(c.eq(g1 * w2, g2 * w1), 'one common stretch factor')
  c.cover('a real stretch', c.Not(c.eq(out.notes[0].end_time, ts[0][1])))


def h_augment_errors(c):
  """augment_note_sequence raises ValueError exactly when one of the three
  (min, max) pairs is reversed (documented), and leaves an empty sequence
  alone."""
  pb, sl = c.pb, c.mod('sequences_lib')
  ns = pb.NoteSequence()
  ns.notes.add(pitch=c.int('p', 0, 127), velocity=64, start_time=0,
               end_time=1)
  ns.total_time = 1
  lo = c.int('lo', 0, 127)
  hi = c.int('hi', 0, 127)
  tmin = c.int('tmin', -24, 24)
  tmax = c.int('tmax', -24, 24)
  smin = c.real('smin', 0.5, 2)
  smax = c.real('smax', 0.5, 2)
  bad = c.Or(lo > hi, tmin > tmax, smin > smax)
  _, err = c.raises(sl.augment_note_sequence, ns, smin, smax, tmin, tmax, lo,
                    hi, c.params['delete'])
  c.check(c.If(bad, isinstance(err, ValueError), err is None),
          'ValueError iff a minimum exceeds its maximum')
  c.cover('reversed pitch range', lo > hi)
  c.cover('reversed transpose range', tmin > tmax)
  c.cover('reversed stretch range', smin > smax)
  c.cover('all ranges proper', c.Not(bad))


def h_squash_amount(c):
  """The amount Melody.squash returns: "the notes are transposed to be in the
  given key" (target key minus the melody's major key, modulo octaves) and
  "octave shifted to be centered in the given range" (no other octave brings
  the middle of the melody closer to the middle of [min, max-1]); 0 when there
  is nothing to transpose."""
  ml = c.mod('melodies_lib')
  L = c.params['L']
  ev = [c.int('e%d' % i, -2, 127) for i in range(L)]
  key = c.int('key', 0, 11)
  lo = c.int('lo', 0, 116)
  hi = c.int('hi', 12, 128)
  c.assume(hi - lo >= 12)
  m = ml.Melody(list(ev))
  ev = list(m)
  # case split only: the library's own answer selects which of the twelve
  # keys the independent definition below is asked to confirm
  M = c.concretize(ml.Melody(list(ev)).get_major_key())
  amt = m.squash(lo, hi, key)
  pitched = c.Or([e >= 0 for e in ev])
  if not pitched:
    c.check(c.eq(amt, 0), 'nothing to transpose: amount 0')
    return
  c.check(_is_major_key(c, ev, int(M)),
          'major key = lowest major key holding the most notes')
  c.check(c.eq((amt - key + int(M)) % 12, 0),
          'returned amount = target key - major key (mod 12)')
  mn = c.Min([c.If(e >= 0, e, 127) for e in ev])
  mx = c.Max([c.If(e >= 0, e, 0) for e in ev])
  off = (lo + hi - 1) - (mn + mx) - 2 * amt
  c.check(c.And(off <= 12, off >= -12),
          'octave chosen to centre the melody in the range')
  c.cover('a real transposition', c.Not(c.eq(amt % 12, 0)))
  c.cover('octave shift', c.Or(amt >= 12, amt <= -12))


HARNESSES = {
    'h_transpose_ns': h_transpose_ns,
    'h_spelling': h_spelling,
    'h_chord_symbol': h_chord_symbol,
    'h_ns_chords': h_ns_chords,
    'h_bad_symbol': h_bad_symbol,
    'h_melody': h_melody,
    'h_progression': h_progression,
    'h_melody_kw': h_melody_kw,
    'h_sheet': h_sheet,
    'h_clamp': h_clamp,
    'h_squash': h_squash,
    'h_major_key': h_major_key,
    'h_squash_amount': h_squash_amount,
    'h_augment': h_augment,
    'h_augment_errors': h_augment_errors,
    'h_augment_times': h_augment_times,
}

_ROOTS_QUICK = ['C', 'F#', 'Bb', 'E', 'Cb', 'B#', 'Abb', 'G##']
_ROOTS_ALL = [s + a for s in 'ABCDEFG' for a in ('', '#', 'b', '##', 'bb')]
_KINDS_QUICK = ['', 'm', '7', 'maj7', 'dim', '+', 'm7b5', 'sus', '6', '13']
_MODS = ['', '(b9)', 'add6', '(no3)']


def _kinds_all():
  """First abbreviation of every chord kind, read from the working tree."""
  import ast  # pylint: disable=g-import-not-at-top
  import os  # pylint: disable=g-import-not-at-top
  repo = os.environ.get('NOTE_SEQ_REPO', '/repo')
  with open(os.path.join(repo, 'note_seq', 'chord_symbols_lib.py')) as f:
    tree = ast.parse(f.read())
  for n in tree.body:
    if isinstance(n, ast.Assign) and getattr(n.targets[0], 'id',
                                             None) == '_CHORD_KINDS':
      kinds = ast.literal_eval(n.value)
      return [abbrevs[0] for abbrevs, _ in kinds] + [
          abbrevs[-1] for abbrevs, _ in kinds if len(abbrevs) > 1
      ]
  return _KINDS_QUICK


def jobs(tier):
  J = []

  def add(h, budget=200, required=True, **params):
    J.append({'harness': h, 'params': params, 'budget_s': budget,
              'required': required})

  deep = tier == 'thorough'
  add('h_transpose_ns', N=1, in_place=False)
  add('h_transpose_ns', N=1, in_place=True)
  add('h_transpose_ns', N=2, in_place=False)
  add('h_transpose_ns', N=1, in_place=False, transpose_chords=False)
  add('h_transpose_ns', N=1, defaults=True)
  add('h_transpose_ns', N=2, defaults=True)
  add('h_transpose_ns', N=0, in_place=False)
  add('h_transpose_ns', N=0, in_place=True)
  add('h_transpose_ns', N=1, in_place=True, transpose_chords=False)
  add('h_transpose_ns', N=2, in_place=True)
  add('h_transpose_ns', N=1, in_place=False, rich=['Cmaj7', 'F#m7/A'])
  add('h_transpose_ns', N=1, in_place=True, transpose_chords=False,
      rich=['Cmaj7', 'F#m7/A'])
  add('h_transpose_ns', N=2, defaults=True, rich=['Bb13', 'Ebm7b5/Bbb'])
  for st in 'ABCDEFG':
    add('h_spelling', step=st)
  figs = []
  for i, r in enumerate(_ROOTS_QUICK):
    for j, kd in enumerate(_KINDS_QUICK):
      if (i + j) % 2 == 0:
        figs.append(r + kd + _MODS[(i + j) % len(_MODS)] +
                    ('/' + _ROOTS_QUICK[(i + 3) % 8] if j % 3 == 0 else ''))
  for f in figs:
    add('h_chord_symbol', figure=f)
  add('h_ns_chords', figure='Cmaj7')
  add('h_ns_chords', figure='Ebm7b5/Bbb')
  for f in ('Cmaj7xyz', 'C7/Gx', 'H7', 'C#b', 'Cm7/', 'c', ''):
    add('h_bad_symbol', figure=f)
  for L in (1, 2):
    add('h_melody', L=L)
  for w in ('min', 'min_kw', 'max_kw'):
    add('h_melody_kw', L=1, which=w)
  add('h_melody_kw', L=2, which='min')
  add('h_melody_kw', L=2, which='max_kw')
  add('h_sheet', figures=['F#m7/A', 'N.C.'])
  add('h_sheet', figures=['N.C.', 'Ebm7b5/Bbb'])
  add('h_progression', figures=['C', 'N.C.'])
  add('h_major_key', L=1)
  add('h_major_key', L=2)
  add('h_major_key', L=3)
  add('h_squash_amount', L=1)
  add('h_squash_amount', L=2, budget=600)
  add('h_squash', L=1, figures=['Am'])
  add('h_squash', L=2, figures=['C', 'F#m7/A'], budget=900)
  add('h_progression', figures=['F#m7/A', 'Bb13'])
  add('h_clamp')
  add('h_augment', N=1)
  add('h_augment', N=2)
  add('h_augment', N=2, delete=True, budget=600)
  add('h_augment', N=0)
  add('h_augment', N=0, delete=True)
  add('h_augment', N=1, defaults=True)
  add('h_augment', N=2, defaults=True)
  add('h_augment', N=1, delete=True, wide=True)
  add('h_augment', N=2, delete=True, wide=True, budget=600)
  add('h_augment_times', N=1)
  add('h_augment_times', N=2)
  add('h_augment', N=2, drums=True)
  add('h_augment_errors', delete=False)
  add('h_augment_errors', delete=True)
  if deep:
    add('h_transpose_ns', N=2, in_place=True, budget=900)
    add('h_transpose_ns', N=3, in_place=False, budget=2400, required=False)
    add('h_melody', L=3, budget=900)
    add('h_melody', L=4, budget=2400, required=False)
    add('h_augment', N=2, drums=True, budget=900)
    add('h_augment', N=3, budget=1800, required=False)
    add('h_transpose_ns', N=3, defaults=True, budget=2400, required=False)
    add('h_transpose_ns', N=2, in_place=True, transpose_chords=False,
        rich=['G##sus(b9)/Cb', 'Abb6'], budget=900)
    add('h_melody_kw', L=3, which='min_kw', budget=900)
    add('h_melody_kw', L=3, which='max_kw', budget=900)
    add('h_sheet', figures=['Bb13', 'N.C.', 'Cb+/E'], budget=900)
    add('h_major_key', L=4, budget=900, required=False)
    add('h_squash_amount', L=3, budget=1800, required=False)
    add('h_augment', N=3, delete=True, wide=True, budget=1800, required=False)
    add('h_augment', N=3, defaults=True, budget=1800, required=False)
    add('h_augment_times', N=3, budget=900)
    kinds = _kinds_all()
    n = 0
    for r in _ROOTS_ALL:
      for kd in kinds:
        n += 1
        mod = _MODS[n % len(_MODS)]
        bass = '/' + _ROOTS_ALL[(n * 7) % len(_ROOTS_ALL)] if n % 3 == 0 else ''
        add('h_chord_symbol', figure=r + kd + mod + bass, budget=300)
  return J
