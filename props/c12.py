"""C12 -- results do not depend on the storage order of notes and events."""
from fractions import Fraction

from props import c07
from props import common as K

META = {
    'level': 'model_checking',
    'level_text':
        'Relational runs: the real operation is executed on a symbolic '
        'sequence and on the same sequence with two adjacent elements of one '
        'repeated field swapped (every adjacent pair, n<=3), and the solver '
        'shows on every path that both runs raise the same error or return '
        'results that are equal as bags (every repeated field compared as a '
        'multiset). Invariance under all adjacent transpositions for all '
        'inputs implies invariance under every permutation, so no permutation '
        'is sampled. The functional oracles of C01, C02, C10, C13 and C14 are '
        'functions of the multiset of events, which gives the same statement '
        'as a corollary for their operations.',
    'level_note':
        'Trusted: z3, reals for doubles, symproto / np-lite / pm-lite '
        '(validated per sampled path on the real stack). Preconditions are the '
        'property\'s own: no two same-pitch notes overlap or coincide, no two '
        'state events of one kind share a time.',
    'functions': [('sequences_lib', 'quantize_note_sequence'),
                  ('sequences_lib', 'quantize_note_sequence_absolute'),
                  ('sequences_lib', '_extract_subsequences'),
                  ('sequences_lib', 'extract_subsequence'),
                  ('sequences_lib', 'trim_note_sequence'),
                  ('sequences_lib', 'split_note_sequence'),
                  ('sequences_lib', 'split_note_sequence_on_time_changes'),
                  ('sequences_lib', 'split_note_sequence_on_silence'),
                  ('sequences_lib', 'apply_sustain_control_changes'),
                  ('sequences_lib', 'transpose_note_sequence'),
                  ('sequences_lib', 'stretch_note_sequence'),
                  ('sequences_lib', 'sequence_to_pianoroll'),
                  ('midi_io', 'note_sequence_to_pretty_midi'),
                  ('melodies_lib', 'Melody.from_quantized_sequence'),
                  ('drums_lib', 'DrumTrack.from_quantized_sequence'),
                  ('chords_lib', 'ChordProgression.from_quantized_sequence'),
                  ('pianoroll_lib', 'PianorollSequence._from_quantized_sequence'),
                  ('performance_lib',
                   'BasePerformance._from_quantized_sequence'),
                  ('performance_lib',
                   'NotePerformance._from_quantized_sequence'),
                  ('performance_lib', '_program_and_is_drum_from_sequence')],
    'assumptions': [
        'no two same-pitch notes overlap or coincide; no two state events of '
        'one kind (tempo, time signature, key, chord, pedal of one instrument) '
        'share a time',
        'double fields are exact reals',
    ],
    'bounds': {
        'quick': 'n = 2 elements per swapped field (3 for notes in cheap '
                 'operations); keyword-argument jobs (*_kw): '
                 'skip_splits_inside_notes, hop list / scalar hop (<= 3 hops), '
                 'pedal numbers {64, 66} on instruments 0..1 with default and '
                 '(66,) preserve lists, sustain_control_number=66, drum '
                 'notes, export cutoff = 1 s for bends / time / key '
                 'signatures, no tempo at 0, programs {0, 1} x drum flag, '
                 'pianoroll renderer with blank frames / no onset overlap '
                 '(3 frames, all 7 arrays; length_ms onsets and offsets in '
                 'the thorough tier), extractors with '
                 'start step 1, pad_end, 2-step bars, instrument 1, pitch '
                 'window 61..61',
        'thorough': 'n = 3 elements, every adjacent pair',
    },
    'outside': ['more than 3 elements per field'],
}


def _order(n, swap):
  o = list(range(n))
  if swap is not None:
    o[swap], o[swap + 1] = o[swap + 1], o[swap]
  return o


def _distinct_times(c, ts):
  for i in range(len(ts)):
    for j in range(i + 1, len(ts)):
      c.assume(c.Not(c.eq(ts[i], ts[j])))


def _notes_spec(c, n, pitch=(60, 62), drums=False, one_instrument=False):
  specs = []
  for i in range(n):
    s = c.real('n%d_s' % i, 0)
    e = c.real('n%d_e' % i)
    c.assume(e > s)
    specs.append(dict(start_time=s, end_time=e,
                      pitch=c.int('n%d_p' % i, pitch[0], pitch[1]),
                      velocity=c.int('n%d_v' % i, 1, 127),
                      instrument=0 if one_instrument else c.int(
                          'n%d_i' % i, 0, 1),
                      is_drum=c.bool('n%d_d' % i) if drums else False))
  for a in range(n):
    for b in range(a + 1, n):
      A, B = specs[a], specs[b]
      c.assume(c.Or(c.Not(c.eq(A['pitch'], B['pitch'])),
                    c.Not(c.eq(A['instrument'], B['instrument'])),
                    A['end_time'] <= B['start_time'],
                    B['end_time'] <= A['start_time']))
  return specs


def _build(c, fields, orders, tt):
  """fields: {name: [kwargs]} ; orders: {name: order list}."""
  ns = c.pb.NoteSequence()
  for name, specs in fields.items():
    o = orders.get(name, range(len(specs)))
    for i in o:
      getattr(ns, name).add(**specs[i])
  ns.total_time = tt
  return ns


def _both(c, op, a, b):
  ra, ea = c.raises(op, a)
  rb, eb = c.raises(op, b)
  if ea is not None or eb is not None:
    c.check(ea is not None and eb is not None and type(ea) is type(eb),
            'both storage orders raise the same error (or neither)')
    c.cover('raising case')
    return None, None
  c.cover('returning case')
  return ra, rb


def h_quantize_extract(c):
  """Notes given by TIMES (no two same-pitch notes overlap or coincide in
  time), quantized by the real quantizer, then extracted as a Performance with
  velocity bins - in both storage orders.  Time-disjoint notes of one pitch may
  land on the same start step; the extraction must not depend on the storage
  order even then."""
  sl = c.mod('sequences_lib')
  pl = c.mod('performance_lib')
  n, swap, sps = c.params['n'], c.params['swap'], c.params['sps']
  nsa = c.pb.NoteSequence()
  specs = []
  for i in range(n):
    s_ = c.real('n%d_s' % i, 0, 1)
    e_ = c.real('n%d_e' % i, 0, 1)
    c.assume(s_ < e_)
    p_ = c.int('n%d_p' % i, 60, 61)
    v_ = c.int('n%d_v' % i, 1, 127)
    specs.append((s_, e_, p_, v_))
    nsa.notes.add(start_time=s_, end_time=e_, pitch=p_, velocity=v_,
                  is_drum=c.params.get('type') == 'drums')
  for a in range(n):
    for b in range(a + 1, n):
      A, B = specs[a], specs[b]
      c.assume(c.Or(c.Not(c.eq(A[2], B[2])), A[1] < B[0], B[1] < A[0]))
  nsa.total_time = 1
  nsb = c.pb.NoteSequence()
  nsb.CopyFrom(nsa)
  del nsb.notes[:]
  src = list(nsa.notes)
  for i in _order(n, swap):
    nsb.notes.add().CopyFrom(src[i])

  which = c.params.get('type', 'performance')
  if which != 'performance':
    nsa.tempos.add(qpm=60)  # steps_per_quarter == steps per second
    nsb.tempos.add(qpm=60)
  if which == 'drums':
    # 1/8 bars: two steps per bar at 4 steps per quarter, so that one second
    # of notes spans two bars (the track start is bar-aligned)
    nsa.time_signatures.add(numerator=1, denominator=8)
    nsb.time_signatures.add(numerator=1, denominator=8)

  def run(ns):
    if which == 'performance':
      q = sl.quantize_note_sequence_absolute(ns, sps)
      p = pl.Performance(q, start_step=0,
                         num_velocity_bins=c.params.get('bins', 4),
                         max_shift_steps=c.params.get('ms', 100))
      return [(e.event_type, e.event_value) for e in p]
    q = sl.quantize_note_sequence(ns, sps)
    if which == 'drums':
      d = c.mod('drums_lib').DrumTrack()
      d.from_quantized_sequence(q, 0, 8, False, False)
      return [(0, sum(1 << (int(x) - 60) for x in e)) for e in d] + [
          (1, d.start_step), (2, d.end_step)]
    if which == 'melody':
      m = c.mod('melodies_lib').Melody()
      m.from_quantized_sequence(q, 0, 0, 1, True, False, False)
      return [(0, e) for e in m] + [(1, m.start_step), (2, m.end_step)]
    r = c.mod('pianoroll_lib').PianorollSequence(
        quantized_sequence=q, start_step=0, min_pitch=60, max_pitch=61)
    return [(0, len(e)) for e in r] + [(1, r.start_step), (2, r.end_step)]

  ra, rb = _both(c, run, nsa, nsb)
  if ra is None:
    return
  c.check(len(ra) == len(rb) and bool(c.And(
      [c.And(x[0] == y[0], c.eq(x[1], y[1])) for x, y in zip(ra, rb)] or
      [True])), 'same extracted events for both storage orders')
  if n >= 2:
    c.cover('time-disjoint same-pitch notes on one start step',
            c.And(c.eq(specs[0][2], specs[1][2]),
                  c.eq(c.Floor(specs[0][0] * sps + 0.5),
                       c.Floor(specs[1][0] * sps + 0.5))))


def _std_fields(c, which, n):
  """Symbolic specs for the repeated field `which` with n elements (plus one
  note); the other fields stay empty so that the case split on event positions
  is not multiplied across kinds that do not interact."""
  TA = c.pb.NoteSequence.TextAnnotation
  fields = {}
  # extra: {field: count} of further populated fields (stored in one order in
  # both runs); drums: symbolic is_drum; cc_var: pedal number / instrument of
  # each control change symbolic
  extra = c.params.get('extra') or {}
  notes = _notes_spec(c, n if which == 'notes' else extra.get('notes', 1),
                      drums=bool(c.params.get('drums')))
  fields['notes'] = notes
  tt = c.real('tt', 0)
  for s in notes:
    c.assume(s['end_time'] <= tt)

  def times(prefix, k):
    ts = [c.real('%s%d_t' % (prefix, i), 0) for i in range(k)]
    _distinct_times(c, ts)
    return ts

  k = n if which == 'tempos' else extra.get('tempos', 0)
  fields['tempos'] = [dict(time=t, qpm=c.real('tp%d_q' % i, 10, 480))
                      for i, t in enumerate(times('tp', k))]
  k = n if which == 'time_signatures' else extra.get('time_signatures', 0)
  fields['time_signatures'] = [
      dict(time=t, numerator=c.int('ts%d_n' % i, 1, 12),
           denominator=c.choice('ts%d_d' % i, [4, 8]))
      for i, t in enumerate(times('ts', k))]
  k = n if which == 'key_signatures' else extra.get('key_signatures', 0)
  fields['key_signatures'] = [dict(time=t, key=c.int('ks%d_k' % i, 0, 11))
                              for i, t in enumerate(times('ks', k))]
  k = n if which == 'control_changes' else extra.get('control_changes', 0)
  ccs = [dict(time=t, control_number=64, control_value=c.int('cc%d_v' % i, 0, 127),
              instrument=0) for i, t in enumerate(times('cc', k))]
  if c.params.get('cc_var'):
    for i, e in enumerate(ccs):
      e['control_number'] = c.choice('cc%d_n' % i, [64, 66])
      e['instrument'] = c.int('cc%d_i' % i, 0, 1)
  fields['control_changes'] = ccs
  k = n if which == 'text_annotations' else extra.get('text_annotations', 0)
  fields['text_annotations'] = [
      dict(time=t, text=['C', 'G7', 'Am'][i],
           annotation_type=c.params.get('ta_type', TA.CHORD_SYMBOL))
      for i, t in enumerate(times('ta', k))]
  k = n if which == 'pitch_bends' else extra.get('pitch_bends', 0)
  fields['pitch_bends'] = [dict(time=t, bend=c.int('pb%d_b' % i, -100, 100))
                           for i, t in enumerate(times('pb', k))]
  return fields, tt


def h_seq_op(c):
  """quantize / extract / split / sustain / transpose / stretch."""
  sl = c.mod('sequences_lib')
  op_name, which, n, swap = (c.params['op'], c.params['field'], c.params['n'],
                             c.params['swap'])
  fields, tt = _std_fields(c, which, n)
  order_b = _order(n, swap)
  if op_name == 'sustain' and 'scn' in c.params and which == 'control_changes':
    # a closing pedal-up after everything else in time (stored first in both
    # runs), so that one effective pedal-down among the swapped events shows
    fields[which] = [dict(time=tt + 1, control_number=c.params['scn'],
                          control_value=0, instrument=0)] + fields[which]
    order_b = [0] + [i + 1 for i in order_b]
  a = _build(c, fields, {}, tt)
  b = _build(c, fields, {which: order_b}, tt)
  if op_name == 'quantize':
    op = lambda ns: sl.quantize_note_sequence(ns, 4)
  elif op_name == 'quantize_abs':
    op = lambda ns: sl.quantize_note_sequence_absolute(ns, 31)
  elif op_name == 'extract':
    sp = [c.real('sp%d' % i, 0) for i in range(3)]
    c.assume(c.And(sp[0] <= sp[1], sp[1] <= sp[2], sp[1] < tt))
    if 'pcn' in c.params:
      # non-default list of pedal numbers to carry over the split points
      pcn = c.params['pcn']
      op = lambda ns: sl._extract_subsequences(
          ns, list(sp), preserve_control_numbers=list(pcn))
    else:
      op = lambda ns: sl._extract_subsequences(ns, list(sp))
  elif op_name == 'extract_one':
    # the public single-range form (default pedal numbers 64, 66, 67)
    s0, e0 = c.real('x_s', 0), c.real('x_e', 0)
    op = lambda ns: sl.extract_subsequence(ns, s0, e0)
  elif op_name == 'trim':
    s0, e0 = c.real('x_s', 0), c.real('x_e', 0)
    op = lambda ns: sl.trim_note_sequence(ns, s0, e0)
  elif op_name == 'split_changes' and 'skip' in c.params:
    # with skip_splits_inside_notes=True the sorted note list decides whether
    # a tempo / time signature change splits the sequence
    skip = c.params['skip']
    op = lambda ns: sl.split_note_sequence_on_time_changes(
        ns, skip_splits_inside_notes=skip)
  elif op_name == 'split_changes':
    op = lambda ns: sl.split_note_sequence_on_time_changes(ns)
  elif op_name == 'split_hop':
    # split_note_sequence at a list of times (given unsorted) or at multiples
    # of a scalar hop size (at most 3 hops inside total_time)
    if c.params.get('scalar'):
      hop = c.real('hop')
      c.assume(c.And(hop > 0, tt <= 3 * hop))
      hops = hop
    else:
      hops = [c.real('hop%d' % i, 0) for i in range(2)]
    mk = (lambda: list(hops)) if isinstance(hops, list) else (lambda: hops)
    if 'skip' in c.params:
      skip = c.params['skip']
      op = lambda ns: sl.split_note_sequence(
          ns, mk(), skip_splits_inside_notes=skip)
    else:
      op = lambda ns: sl.split_note_sequence(ns, mk())
  elif op_name == 'split_silence':
    gap = c.real('gap', 0)
    op = lambda ns: sl.split_note_sequence_on_silence(ns, gap)
  elif op_name == 'sustain' and 'scn' in c.params:
    scn = c.params['scn']
    op = lambda ns: sl.apply_sustain_control_changes(
        ns, sustain_control_number=scn)
  elif op_name == 'sustain':
    op = sl.apply_sustain_control_changes
  elif op_name == 'transpose':
    k = c.int('k', -12, 12)
    lo, hi = c.int('lo', 0, 127), c.int('hi', 0, 127)
    # chord symbols are left out of the transposed text (covered by C10)
    for ns in (a, b):
      for ta in ns.text_annotations:
        ta.annotation_type = 0
    op = lambda ns: sl.transpose_note_sequence(ns, k, lo, hi)[0]
  elif op_name == 'stretch':
    f = c.real('f')
    c.assume(f > 0)
    op = lambda ns: sl.stretch_note_sequence(ns, f)
  ra, rb = _both(c, op, a, b)
  if ra is None:
    return
  la = ra if isinstance(ra, list) else [ra]
  lb = rb if isinstance(rb, list) else [rb]
  c.check(len(la) == len(lb), 'same number of pieces')
  for x, y in zip(la, lb):
    c.check(K.seq_bag_eq(c, x, y), 'results equal as bags of notes and events')


def h_extract_events(c):
  """Melody / DrumTrack / PianorollSequence / Performance / NotePerformance
  extraction.  params: ts = time signature (bar length in steps = 4 * ts[0] /
  ts[1] at one step per quarter); ins2 = notes on instruments 0 and 1; kw =
  keyword arguments of the extractor (replacing the positional defaults of the
  plain jobs)."""
  which = c.params['type']
  n, swap, S = c.params['n'], c.params['swap'], c.params['S']
  kw = dict(c.params.get('kw') or {})
  has_kw = 'kw' in c.params
  unb = which == 'performance'
  absolute = which in ('performance', 'noteperf')
  nsa, notes, tq = c07._qseq(c, n, None if unb else S, relative=not absolute,
                             spq=1, sps=100, pitch=(60, 62) if which != 'drums'
                             else (36, 38), unbounded=unb,
                             ts=tuple(c.params.get('ts', (4, 4))),
                             vel=(1, 127),
                             instruments=(0, 1) if c.params.get('ins2')
                             else (0, 0))
  if unb:
    c.assume(tq <= 2 * 3)
  # the same notes in swapped storage order
  nsb = c.pb.NoteSequence()
  nsb.CopyFrom(nsa)
  del nsb.notes[:]
  src = list(nsa.notes)
  for i in _order(n, swap):
    nsb.notes.add().CopyFrom(src[i])

  def run(ns):
    if which == 'melody':
      m = c.mod('melodies_lib').Melody()
      if has_kw:
        m.from_quantized_sequence(ns, **kw)
      else:
        m.from_quantized_sequence(ns, 0, 0, 1, True, False, False)
      return (list(m), m.start_step, m.end_step)
    if which == 'drums':
      d = c.mod('drums_lib').DrumTrack()
      if has_kw:
        d.from_quantized_sequence(ns, **kw)
      else:
        d.from_quantized_sequence(ns, 0, 1, False, True)
      return ([sorted(c.concretize(p) for p in e) for e in d], d.start_step,
              d.end_step)
    if which == 'pianoroll':
      if has_kw:
        r = c.mod('pianoroll_lib').PianorollSequence(quantized_sequence=ns,
                                                     **kw)
      else:
        r = c.mod('pianoroll_lib').PianorollSequence(
            quantized_sequence=ns, start_step=0, min_pitch=60, max_pitch=62,
            split_repeats=c.params.get('split', True))
      return (list(r), r.start_step, r.end_step)
    pl = c.mod('performance_lib')
    if which == 'noteperf':
      p = pl.NotePerformance(ns, **kw)
      return ([(4 * i + j, e.event_type, e.event_value)
               for i, t in enumerate(p) for j, e in enumerate(t)],
              p.start_step, 0, p.program, p.is_drum)
    if has_kw:
      p = pl.Performance(ns, **kw)
    else:
      p = pl.Performance(ns, start_step=0,
                         num_velocity_bins=c.params.get('bins', 4),
                         max_shift_steps=3)
    return ([(e.event_type, e.event_value) for e in p], p.start_step,
            p.end_step, p.program, p.is_drum)

  ra, rb = _both(c, run, nsa, nsb)
  if ra is None:
    return
  ea, eb = ra[0], rb[0]
  c.check(len(ea) == len(eb), 'same number of events')
  if which in ('performance', 'noteperf'):
    # events of one step may legitimately be ordered differently only if the
    # extractor's own ordering key ties; it sorts by (time, pitch), so require
    # identical streams
    c.check(c.And([c.And([c.eq(u, v) for u, v in zip(x, y)])
                   for x, y in zip(ea, eb)] or [True]), 'same event stream')
    # program / drum flag of the extracted track: None, or the common value
    same = lambda u, v: (u is None) == (v is None) and (
        u is None or bool(c.eq(u, v)))
    c.check(same(ra[3], rb[3]) and same(ra[4], rb[4]),
            'same program and drum flag')
  elif which == 'melody':
    c.check(c.And([c.eq(x, y) for x, y in zip(ea, eb)] or [True]),
            'same melody events')
  else:
    c.check(ea == eb, 'same events')
  c.check(c.And(c.eq(ra[1], rb[1]), c.eq(ra[2], rb[2])), 'same step range')
  if n >= 2:
    c.cover('abutting notes of one pitch',
            c.And(c.eq(notes[0]['p'], notes[1]['p']),
                  c.eq(notes[0]['qs'], notes[1]['qe'])))
  if n >= 2 and 'ts' in c.params and which in ('melody', 'drums'):
    bar = 4 * c.params['ts'][0] // c.params['ts'][1]
    c.cover('second stored note a bar or more after the end of the first '
            '(gap ends the track)', notes[1]['qs'] - notes[0]['qe'] >= bar)
    c.cover('first stored note in a later bar than the second',
            notes[0]['qs'] >= notes[1]['qs'] + bar)


def h_chord_events(c):
  cl = c.mod('chords_lib')
  TA = c.pb.NoteSequence.TextAnnotation
  n, swap, S = c.params['n'], c.params['swap'], c.params['S']
  qs = [c.int('c%d_q' % i, 0, S) for i in range(n)]
  ts = [0] * n
  if c.params.get('same_step'):
    # chords at distinct TIMES (the property's precondition) that may share a
    # quantized step; steps are monotone in time as the quantizer makes them
    ts = [c.real('c%d_t' % i, 0) for i in range(n)]
    _distinct_times(c, ts)
    for i in range(n):
      for j in range(n):
        if i != j:
          c.assume(c.Implies(ts[i] < ts[j], qs[i] <= qs[j]))
          if c.params.get('not_before_start'):
            # restricted form (the unrestricted job follows it in jobs())
            c.assume(c.Or(c.Not(c.eq(qs[i], qs[j])),
                          qs[i] >= c.params['start']))
  else:
    for i in range(n):
      for j in range(i + 1, n):
        c.assume(c.Not(c.eq(qs[i], qs[j])))

  def build(order):
    ns = c.pb.NoteSequence()
    ns.quantization_info.steps_per_quarter = 1
    ns.time_signatures.add(numerator=4, denominator=4)
    for i in order:
      ns.text_annotations.add(text=c07._FIGS[i], quantized_step=qs[i],
                              time=ts[i], annotation_type=TA.CHORD_SYMBOL)
    return ns

  def run(ns):
    p = cl.ChordProgression()
    p.from_quantized_sequence(ns, c.params['start'], c.params['end'])
    return list(p)

  ra, rb = _both(c, run, build(_order(n, None)), build(_order(n, swap)))
  if ra is not None:
    c.check(ra == rb, 'same chord at every step')


def h_midi_export(c):
  """MIDI export: same PrettyMIDI object model for swapped storage orders.
  params: field = the swapped repeated field; drop = the
  drop_events_n_seconds_after_last_note argument; t0=False: no tempo mark at
  time 0; prog: notes with symbolic program and drum flag (several export
  tracks per instrument number)."""
  mio = c.mod('midi_io')
  which, n, swap = c.params['field'], c.params['n'], c.params['swap']
  notes = _notes_spec(c, n if which == 'notes' else 1,
                      drums=bool(c.params.get('prog')))
  for i, s in enumerate(notes):
    s['instrument'] = c.concretize(s['instrument'])
    s['program'] = c.choice('n%d_g' % i, [0, 1]) if c.params.get('prog') else 0
    s['is_drum'] = c.concretize(s['is_drum'])
  qpms = [120.0, 60.0, 240.0]
  if c.params.get('t0', True):
    tts = [0] + [c.real('tp%d_t' % i) for i in range(1, n)] \
        if which == 'tempos' else [0]
    for t in tts[1:]:
      c.assume(t > 0)
  else:
    # no tempo mark at time 0: the export starts at the default tempo
    tts = [c.real('tp%d_t' % i) for i in range(n)]
    for t in tts:
      c.assume(t > 0)
  _distinct_times(c, tts)
  tempos = [dict(time=t, qpm=qpms[i]) for i, t in enumerate(tts)]
  # control changes / pitch bends on the notes' instrument, time and key
  # signatures (storage order swapped when they are the field under test);
  # with `drop`, events later than `drop` seconds after the last note end are
  # to be left out
  drop = c.params.get('drop')
  k_ev = n if which in ('control_changes', 'pitch_bends', 'time_signatures',
                        'key_signatures') else 0
  ev_t = [c.real('ev%d_t' % i, 0) for i in range(k_ev)]
  _distinct_times(c, ev_t)
  if which in ('time_signatures', 'key_signatures'):
    evs = [dict(time=t) for t in ev_t]
  else:
    evs = [dict(time=t, instrument=notes[0]['instrument'],
                program=notes[0]['program'], is_drum=notes[0]['is_drum'])
           for t in ev_t]
  for i, e in enumerate(evs):
    if which == 'control_changes':
      e.update(control_number=64, control_value=c.int('ev%d_v' % i, 0, 127))
    elif which == 'pitch_bends':
      e.update(bend=c.int('ev%d_v' % i, -8192, 8191))
    elif which == 'time_signatures':
      e.update(numerator=c.int('ev%d_v' % i, 1, 12),
               denominator=c.choice('ev%d_d' % i, [4, 8]))
    else:
      e.update(key=c.int('ev%d_v' % i, 0, 11), mode=c.int('ev%d_m' % i, 0, 1))

  def build(order_notes, order_tempos, order_evs):
    ns = c.pb.NoteSequence()
    ns.ticks_per_quarter = 256
    for i in order_notes:
      ns.notes.add(**notes[i])
    for i in order_tempos:
      ns.tempos.add(**tempos[i])
    for i in order_evs:
      getattr(ns, which).add(**evs[i])
    return ns

  a = build(range(len(notes)), range(len(tempos)), range(k_ev))
  b = build(_order(len(notes), swap if which == 'notes' else None),
            _order(len(tempos), swap if which == 'tempos' else None),
            _order(k_ev, swap if k_ev else None))

  def run(ns):
    if 'drop' in c.params:
      pm = mio.note_sequence_to_pretty_midi(
          ns, drop_events_n_seconds_after_last_note=drop)
    else:
      pm = mio.note_sequence_to_pretty_midi(ns)
    times, q = pm.get_tempo_changes()
    insts = []
    for ins in pm.instruments:
      insts.append((ins.program, bool(ins.is_drum),
                    [(m.pitch, m.velocity, m.start, m.end) for m in ins.notes] +
                    [(-1, cc.value, cc.time, cc.number)
                     for cc in ins.control_changes] +
                    [(-2, pb_.pitch, pb_.time, 0) for pb_ in ins.pitch_bends]))
    sigs = [(0, x.numerator, x.denominator, x.time)
            for x in pm.time_signature_changes] + [
                (1, x.key_number, 0, x.time) for x in pm.key_signature_changes]
    return list(times), list(q), sigs, insts

  ra, rb = _both(c, run, a, b)
  if ra is None:
    return
  c.check(len(ra[0]) == len(rb[0]) and bool(c.And(
      [c.And(c.eq(x, y), c.approx(p, q, 1e-9))
       for x, y, p, q in zip(ra[0], rb[0], ra[1], rb[1])] or [True])),
          'same tempo map')
  c.check(len(ra[3]) == len(rb[3]), 'same number of instruments')
  for (pa, da, na), (pb_, db, nb) in zip(ra[3], rb[3]):
    c.check(pa == pb_ and da == db and bool(K.multiset_eq(
        c, na, [(True, k) for k in nb])), 'same notes, control changes and '
                                            'pitch bends per instrument')
  c.check(len(ra[2]) == len(rb[2]) and bool(K.multiset_eq(
      c, ra[2], [(True, k) for k in rb[2]])),
          'same time and key signature changes')
  if k_ev and drop is not None:
    last = c.Max([s['end_time'] for s in notes])
    c.cover('one swapped event past the cutoff, one inside',
            c.Or(c.And(ev_t[0] > last + drop, ev_t[1] <= last + drop),
                 c.And(ev_t[1] > last + drop, ev_t[0] <= last + drop)))


def h_frame_roll(c):
  """sequence_to_pianoroll: same rolls for swapped note (or control change)
  storage order.  params: kw = keyword arguments handed to the renderer;
  all = compare all seven arrays of the result (else the three note rolls);
  cc = number of control changes, swapped instead of the notes."""
  sl = c.mod('sequences_lib')
  n, swap = c.params['n'], c.params['swap']
  k_cc = c.params.get('cc', 0)
  kw = dict(c.params.get('kw') or {})
  notes = _notes_spec(c, n, pitch=(60, 61), one_instrument=True)
  tt = c.real('tt', 0)
  for s in notes:
    c.assume(s['end_time'] <= tt)
  fps = c.params['fps']
  c.assume(tt * fps < c.params['frames'])
  cc_t = [c.real('cc%d_t' % i, 0) for i in range(k_cc)]
  _distinct_times(c, cc_t)
  ccs = [dict(time=t, control_number=c.choice('cc%d_n' % i, [64, 67]),
              control_value=c.int('cc%d_v' % i, 0, 127))
         for i, t in enumerate(cc_t)]
  if c.params.get('cc_apart'):
    # restricted form (the unrestricted job follows it in jobs()): control
    # changes of one number lie in different frames
    for i in range(k_cc):
      for j in range(i + 1, k_cc):
        c.assume(c.Or(ccs[i]['control_number'] != ccs[j]['control_number'],
                      c.Not(c.eq(c.Floor(cc_t[i] * fps),
                                 c.Floor(cc_t[j] * fps)))))

  def build(order, order_cc):
    ns = c.pb.NoteSequence()
    for i in order:
      ns.notes.add(**notes[i])
    for i in order_cc:
      ns.control_changes.add(**ccs[i])
    ns.total_time = tt
    return ns

  def run(ns):
    r = sl.sequence_to_pianoroll(ns, fps, 60, 61, **kw)
    f = lambda a: [[x for x in row] for row in (
        a.tolist() if hasattr(a, 'tolist') else a)]
    out = (f(r.active), f(r.onsets), f(r.active_velocities))
    if c.params.get('all'):
      out += (f(r.weights), f(r.onset_velocities), f(r.offsets),
              f(r.control_changes))
    return out

  ra, rb = _both(c, run, build(_order(n, None), range(k_cc)),
                 build(_order(n, None if k_cc else swap),
                       _order(k_cc, swap if k_cc else None)))
  if ra is None:
    return
  conds = []
  for A, B in zip(ra, rb):
    if len(A) != len(B):
      c.check(False, 'same roll length')
      return
    conds.append([c.approx(x, y, 1e-6) for rowa, rowb in zip(A, B)
                  for x, y in zip(rowa, rowb)])
  # two notes of one pitch sharing a frame paint their velocity in start-time
  # order; the precondition (no overlap) leaves only the shared boundary frame
  c.check(c.And(sum(conds[:3], []) or [True]),
          'same active / onset / velocity rolls')
  if c.params.get('all'):
    c.check(c.And(sum(conds[3:], []) or [True]),
            'same weights / onset velocities / offsets / control change roll')
  if n >= 2 and kw.get('add_blank_frame_before_onset'):
    c.cover('a note starts in the frame after the start frame of an earlier '
            'note of its pitch',
            c.And(c.eq(notes[0]['pitch'], notes[1]['pitch']),
                  c.eq(c.Floor(notes[0]['start_time'] * fps) + 1,
                       c.Floor(notes[1]['start_time'] * fps))))


HARNESSES = {
    # *_kw: the same harness functions under a second name for the jobs that
    # pass rarely used keyword arguments / sibling functions (so that
    # `--only` can select them)
    'h_seq_kw': h_seq_op,
    'h_frame_kw': h_frame_roll,
    'h_events_kw': h_extract_events,
    'h_export_kw': h_midi_export,
    'h_midi_export': h_midi_export,
    'h_frame_roll': h_frame_roll,
    'h_seq_op': h_seq_op,
    'h_extract_events': h_extract_events,
    'h_quantize_extract': h_quantize_extract,
    'h_chord_events': h_chord_events,
}


def jobs(tier):
  J = []

  def add(h, budget=300, required=True, **params):
    J.append({'harness': h, 'params': params, 'budget_s': budget,
              'required': required})

  deep = tier == 'thorough'
  plan = {
      'quantize': ['notes', 'tempos', 'time_signatures', 'control_changes',
                   'text_annotations'],
      'quantize_abs': ['notes'],
      'extract': ['notes', 'tempos', 'time_signatures', 'key_signatures',
                  'control_changes', 'text_annotations'],
      'split_changes': ['tempos', 'time_signatures', 'notes'],
      'split_silence': ['notes'],
      'sustain': ['notes', 'control_changes'],
      'transpose': ['notes', 'key_signatures'],
      'stretch': ['notes', 'tempos', 'pitch_bends'],
  }
  for op, fields in plan.items():
    for f in fields:
      add('h_seq_op', op=op, field=f, n=2, swap=0,
          budget=600 if op in ('extract', 'sustain') else 300)
      if deep:
        for sw in (0, 1):
          add('h_seq_op', op=op, field=f, n=3, swap=sw, budget=2400,
              required=op not in ('extract', 'sustain', 'split_changes'))
  add('h_seq_op', op='extract', field='text_annotations', n=2, swap=0, ta_type=2)
  # keyword arguments and sibling functions
  add('h_seq_kw', op='split_changes', field='notes', n=2, swap=0, skip=True,
      extra={'tempos': 1})
  add('h_seq_kw', op='split_hop', field='notes', n=2, swap=0, skip=True)
  add('h_seq_kw', op='split_hop', field='notes', n=2, swap=0)
  add('h_seq_kw', op='split_hop', field='notes', n=2, swap=0, skip=True,
      scalar=True)
  if deep:
    add('h_seq_kw', op='extract', field='control_changes', n=2, swap=0,
        cc_var=True, budget=900)
  add('h_seq_kw', op='extract', field='control_changes', n=2, swap=0,
      cc_var=True, pcn=(66,))
  add('h_seq_kw', op='extract_one', field='control_changes', n=2, swap=0,
      cc_var=True)
  add('h_seq_kw', op='extract_one', field='notes', n=2, swap=0)
  add('h_seq_kw', op='trim', field='notes', n=2, swap=0)
  add('h_seq_kw', op='sustain', field='control_changes', n=2, swap=0,
      cc_var=True, scn=66)
  # (the plain sustain / notes job has no pedal event at all)
  add('h_seq_kw', op='sustain', field='notes', n=2, swap=0, drums=True,
      extra={'control_changes': 1})
  add('h_seq_kw', op='transpose', field='notes', n=2, swap=0, drums=True)
  add('h_seq_kw', op='quantize_abs', field='text_annotations', n=2, swap=0)
  # three notes: two starting together (tie order = storage order) + a later one
  for sw in (0, 1):
    add('h_seq_op', op='split_silence', field='notes', n=3, swap=sw)
  for t in ('melody', 'drums', 'pianoroll', 'performance'):
    add('h_extract_events', type=t, n=2, swap=0, S=4, budget=600)
    if deep:
      for sw in (0, 1):
        add('h_extract_events', type=t, n=3, swap=sw, S=4, budget=3000,
            required=False)
      add('h_extract_events', type=t, n=2, swap=0, S=6, budget=1800)
  add('h_extract_events', type='pianoroll', n=2, swap=0, S=4, split=False)
  # keyword arguments of the extractors: a later search start, padding to the
  # bar, two-step bars (so that notes lie in different bars and a one-bar gap
  # ends the track), an instrument filter, a narrow pitch window; and the
  # NotePerformance sibling
  add('h_events_kw', type='melody', n=2, swap=0, S=5, ts=(2, 4), ins2=True,
      kw=dict(search_start_step=1, pad_end=True), budget=600)
  add('h_events_kw', type='drums', n=2, swap=0, S=5, ts=(2, 4),
      kw=dict(search_start_step=1, pad_end=True), budget=600)
  add('h_events_kw', type='pianoroll', n=2, swap=0, S=4,
      kw=dict(start_step=1, min_pitch=61, max_pitch=61), budget=600)
  add('h_events_kw', type='performance', n=2, swap=0, S=4, ins2=True,
      kw=dict(start_step=1, instrument=1), budget=600)
  add('h_events_kw', type='noteperf', n=2, swap=0, S=4, ins2=True,
      kw=dict(num_velocity_bins=4, instrument=1, start_step=1), budget=600)
  add('h_quantize_extract', n=2, swap=0, sps=4, bins=4, budget=900)
  add('h_quantize_extract', n=2, swap=0, sps=4, type='melody', budget=900)
  add('h_quantize_extract', n=2, swap=0, sps=4, type='pianoroll', budget=900)
  add('h_quantize_extract', n=2, swap=0, sps=4, type='drums', budget=900)
  if deep:
    for sw in (0, 1):
      add('h_quantize_extract', n=3, swap=sw, sps=4, bins=4, budget=3000)
      add('h_quantize_extract', n=3, swap=sw, sps=4, type='melody',
          budget=3000)
  add('h_midi_export', field='notes', n=2, swap=0)
  add('h_midi_export', field='tempos', n=2, swap=0)
  add('h_midi_export', field='tempos', n=3, swap=1, budget=600)
  add('h_midi_export', field='control_changes', n=2, swap=0, drop=1)
  add('h_midi_export', field='pitch_bends', n=2, swap=0, drop=None)
  # the cutoff for pitch bends and time / key signatures, no tempo at time 0,
  # several (program, drum flag) tracks of one instrument number
  add('h_export_kw', field='pitch_bends', n=2, swap=0, drop=1)
  add('h_export_kw', field='time_signatures', n=2, swap=0, drop=1)
  add('h_export_kw', field='key_signatures', n=2, swap=0, drop=1)
  add('h_export_kw', field='tempos', n=2, swap=0, t0=False)
  add('h_export_kw', field='notes', n=2, swap=0, prog=True)
  add('h_frame_roll', n=2, swap=0, fps=8, frames=4, all=True, budget=600)
  # renderer keyword arguments; all seven result arrays compared
  add('h_frame_kw', n=2, swap=0, fps=8, frames=3, all=True, budget=600,
      kw={'add_blank_frame_before_onset': True})
  add('h_frame_kw', n=2, swap=0, fps=8, frames=3, all=True, budget=600,
      kw={'onset_overlap': False, 'onset_window': 0})
  if deep:
    add('h_frame_kw', n=2, swap=0, fps=8, frames=3, all=True, budget=900,
        kw={'onset_mode': 'length_ms', 'onset_length_ms': 125,
            'offset_length_ms': 125, 'max_velocity': 254})
  add('h_frame_kw', n=1, swap=0, cc=2, fps=8, frames=3, all=True,
      cc_apart=True)
  # two control changes of one number at distinct times inside one frame: the
  # later one in time wins in both storage orders (F-C12-b, fixed: the roll
  # kept the one stored last, e.g. CC64=127 at 3/16 s and CC64=126 at 1/8 s at
  # 8 frames per second)
  add('h_frame_kw', n=1, swap=0, cc=2, fps=8, frames=3, all=True)
  if deep:
    add('h_midi_export', field='notes', n=3, swap=1, budget=1800)
    # two exports of a 3-tempo map in one query: the solver may give up
    # (C03 h_tempo_order decides the same statement functionally)
    add('h_midi_export', field='tempos', n=3, swap=1, budget=900,
        required=False)
    add('h_frame_roll', n=2, swap=0, fps=50, frames=5, budget=1800)
  add('h_chord_events', n=2, swap=0, S=4, start=0, end=4)
  add('h_chord_events', n=2, swap=0, S=5, start=1, end=4)
  # chords at distinct times on one quantized step (inside the range: the
  # documented CoincidentChordsError in both orders)
  add('h_chord_events', n=2, swap=0, S=5, start=1, end=4, same_step=True,
      not_before_start=True)
  # two different chords at distinct times that quantize to one step BEFORE
  # start_step (F-C12-c, fixed: the chord in effect at start_step was the one
  # stored last, e.g. 'C' at 0 s and 'G7' at 1/16 s, both step 0)
  add('h_chord_events', n=2, swap=0, S=5, start=1, end=4, same_step=True)
  if deep:
    for sw in (0, 1):
      add('h_chord_events', n=3, swap=sw, S=5, start=1, end=5, budget=1800)
  return J
