"""C12 -- results do not depend on the storage order of notes and events."""
from fractions import Fraction

from props import c07
from props import common as K

META = {
    'level': 'model_checking',
    'level_text':
        'Relational runs: the real operation is executed on a symbolic '
        'sequence and on the same sequence with two adjacent elements of one '
        'repeated field swapped (every adjacent pair, n<=3), and the solver '
        'shows on every path that both runs raise the same error or return '
        'results that are equal as bags (every repeated field compared as a '
        'multiset). Invariance under all adjacent transpositions for all '
        'inputs implies invariance under every permutation, so no permutation '
        'is sampled. The functional oracles of C01, C02, C10, C13 and C14 are '
        'functions of the multiset of events, which gives the same statement '
        'as a corollary for their operations.',
    'level_note':
        'Trusted: z3, reals for doubles, symproto / np-lite / pm-lite '
        '(validated per sampled path on the real stack). Preconditions are the '
        'property\'s own: no two same-pitch notes overlap or coincide, no two '
        'state events of one kind share a time.',
    'functions': [('sequences_lib', 'quantize_note_sequence'),
                  ('sequences_lib', '_extract_subsequences'),
                  ('sequences_lib', 'split_note_sequence_on_time_changes'),
                  ('sequences_lib', 'split_note_sequence_on_silence'),
                  ('sequences_lib', 'apply_sustain_control_changes'),
                  ('sequences_lib', 'transpose_note_sequence'),
                  ('sequences_lib', 'stretch_note_sequence'),
                  ('sequences_lib', 'sequence_to_pianoroll'),
                  ('midi_io', 'note_sequence_to_pretty_midi'),
                  ('melodies_lib', 'Melody.from_quantized_sequence'),
                  ('drums_lib', 'DrumTrack.from_quantized_sequence'),
                  ('chords_lib', 'ChordProgression.from_quantized_sequence'),
                  ('pianoroll_lib', 'PianorollSequence._from_quantized_sequence'),
                  ('performance_lib',
                   'BasePerformance._from_quantized_sequence')],
    'assumptions': [
        'no two same-pitch notes overlap or coincide; no two state events of '
        'one kind (tempo, time signature, key, chord, pedal of one instrument) '
        'share a time',
        'double fields are exact reals',
    ],
    'bounds': {
        'quick': 'n = 2 elements per swapped field (3 for notes in cheap '
                 'operations)',
        'thorough': 'n = 3 elements, every adjacent pair',
    },
    'outside': ['more than 3 elements per field'],
}


def _order(n, swap):
  o = list(range(n))
  if swap is not None:
    o[swap], o[swap + 1] = o[swap + 1], o[swap]
  return o


def _distinct_times(c, ts):
  for i in range(len(ts)):
    for j in range(i + 1, len(ts)):
      c.assume(c.Not(c.eq(ts[i], ts[j])))


def _notes_spec(c, n, pitch=(60, 62), drums=False, one_instrument=False):
  specs = []
  for i in range(n):
    s = c.real('n%d_s' % i, 0)
    e = c.real('n%d_e' % i)
    c.assume(e > s)
    specs.append(dict(start_time=s, end_time=e,
                      pitch=c.int('n%d_p' % i, pitch[0], pitch[1]),
                      velocity=c.int('n%d_v' % i, 1, 127),
                      instrument=0 if one_instrument else c.int(
                          'n%d_i' % i, 0, 1),
                      is_drum=c.bool('n%d_d' % i) if drums else False))
  for a in range(n):
    for b in range(a + 1, n):
      A, B = specs[a], specs[b]
      c.assume(c.Or(c.Not(c.eq(A['pitch'], B['pitch'])),
                    c.Not(c.eq(A['instrument'], B['instrument'])),
                    A['end_time'] <= B['start_time'],
                    B['end_time'] <= A['start_time']))
  return specs


def _build(c, fields, orders, tt):
  """fields: {name: [kwargs]} ; orders: {name: order list}."""
  ns = c.pb.NoteSequence()
  for name, specs in fields.items():
    o = orders.get(name, range(len(specs)))
    for i in o:
      getattr(ns, name).add(**specs[i])
  ns.total_time = tt
  return ns


def _both(c, op, a, b):
  ra, ea = c.raises(op, a)
  rb, eb = c.raises(op, b)
  if ea is not None or eb is not None:
    c.check(ea is not None and eb is not None and type(ea) is type(eb),
            'both storage orders raise the same error (or neither)')
    c.cover('raising case')
    return None, None
  c.cover('returning case')
  return ra, rb


def h_quantize_extract(c):
  """Notes given by TIMES (no two same-pitch notes overlap or coincide in
  time), quantized by the real quantizer, then extracted as a Performance with
  velocity bins - in both storage orders.  Time-disjoint notes of one pitch may
  land on the same start step; the extraction must not depend on the storage
  order even then."""
  sl = c.mod('sequences_lib')
  pl = c.mod('performance_lib')
  n, swap, sps = c.params['n'], c.params['swap'], c.params['sps']
  nsa = c.pb.NoteSequence()
  specs = []
  for i in range(n):
    s_ = c.real('n%d_s' % i, 0, 1)
    e_ = c.real('n%d_e' % i, 0, 1)
    c.assume(s_ < e_)
    p_ = c.int('n%d_p' % i, 60, 61)
    v_ = c.int('n%d_v' % i, 1, 127)
    specs.append((s_, e_, p_, v_))
    nsa.notes.add(start_time=s_, end_time=e_, pitch=p_, velocity=v_,
                  is_drum=c.params.get('type') == 'drums')
  for a in range(n):
    for b in range(a + 1, n):
      A, B = specs[a], specs[b]
      c.assume(c.Or(c.Not(c.eq(A[2], B[2])), A[1] < B[0], B[1] < A[0]))
  nsa.total_time = 1
  nsb = c.pb.NoteSequence()
  nsb.CopyFrom(nsa)
  del nsb.notes[:]
  src = list(nsa.notes)
  for i in _order(n, swap):
    nsb.notes.add().CopyFrom(src[i])

  which = c.params.get('type', 'performance')
  if which != 'performance':
    nsa.tempos.add(qpm=60)  # steps_per_quarter == steps per second
    nsb.tempos.add(qpm=60)
  if which == 'drums':
    # 1/8 bars: two steps per bar at 4 steps per quarter, so that one second
    # of notes spans two bars (the track start is bar-aligned)
    nsa.time_signatures.add(numerator=1, denominator=8)
    nsb.time_signatures.add(numerator=1, denominator=8)

  def run(ns):
    if which == 'performance':
      q = sl.quantize_note_sequence_absolute(ns, sps)
      p = pl.Performance(q, start_step=0,
                         num_velocity_bins=c.params.get('bins', 4),
                         max_shift_steps=c.params.get('ms', 100))
      return [(e.event_type, e.event_value) for e in p]
    q = sl.quantize_note_sequence(ns, sps)
    if which == 'drums':
      d = c.mod('drums_lib').DrumTrack()
      d.from_quantized_sequence(q, 0, 8, False, False)
      return [(0, sum(1 << (int(x) - 60) for x in e)) for e in d] + [
          (1, d.start_step), (2, d.end_step)]
    if which == 'melody':
      m = c.mod('melodies_lib').Melody()
      m.from_quantized_sequence(q, 0, 0, 1, True, False, False)
      return [(0, e) for e in m] + [(1, m.start_step), (2, m.end_step)]
    r = c.mod('pianoroll_lib').PianorollSequence(
        quantized_sequence=q, start_step=0, min_pitch=60, max_pitch=61)
    return [(0, len(e)) for e in r] + [(1, r.start_step), (2, r.end_step)]

  ra, rb = _both(c, run, nsa, nsb)
  if ra is None:
    return
  c.check(len(ra) == len(rb) and bool(c.And(
      [c.And(x[0] == y[0], c.eq(x[1], y[1])) for x, y in zip(ra, rb)] or
      [True])), 'same extracted events for both storage orders')
  if n >= 2:
    c.cover('time-disjoint same-pitch notes on one start step',
            c.And(c.eq(specs[0][2], specs[1][2]),
                  c.eq(c.Floor(specs[0][0] * sps + 0.5),
                       c.Floor(specs[1][0] * sps + 0.5))))


def _std_fields(c, which, n):
  """Symbolic specs for the repeated field `which` with n elements (plus one
  note); the other fields stay empty so that the case split on event positions
  is not multiplied across kinds that do not interact."""
  TA = c.pb.NoteSequence.TextAnnotation
  fields = {}
  notes = _notes_spec(c, n if which == 'notes' else 1)
  fields['notes'] = notes
  tt = c.real('tt', 0)
  for s in notes:
    c.assume(s['end_time'] <= tt)

  def times(prefix, k):
    ts = [c.real('%s%d_t' % (prefix, i), 0) for i in range(k)]
    _distinct_times(c, ts)
    return ts

  k = n if which == 'tempos' else 0
  fields['tempos'] = [dict(time=t, qpm=c.real('tp%d_q' % i, 10, 480))
                      for i, t in enumerate(times('tp', k))]
  k = n if which == 'time_signatures' else 0
  fields['time_signatures'] = [
      dict(time=t, numerator=c.int('ts%d_n' % i, 1, 12),
           denominator=c.choice('ts%d_d' % i, [4, 8]))
      for i, t in enumerate(times('ts', k))]
  k = n if which == 'key_signatures' else 0
  fields['key_signatures'] = [dict(time=t, key=c.int('ks%d_k' % i, 0, 11))
                              for i, t in enumerate(times('ks', k))]
  k = n if which == 'control_changes' else 0
  ccs = [dict(time=t, control_number=64, control_value=c.int('cc%d_v' % i, 0, 127),
              instrument=0) for i, t in enumerate(times('cc', k))]
  fields['control_changes'] = ccs
  k = n if which == 'text_annotations' else 0
  fields['text_annotations'] = [
      dict(time=t, text=['C', 'G7', 'Am'][i],
           annotation_type=c.params.get('ta_type', TA.CHORD_SYMBOL))
      for i, t in enumerate(times('ta', k))]
  k = n if which == 'pitch_bends' else 0
  fields['pitch_bends'] = [dict(time=t, bend=c.int('pb%d_b' % i, -100, 100))
                           for i, t in enumerate(times('pb', k))]
  return fields, tt


def h_seq_op(c):
  """quantize / extract / split / sustain / transpose / stretch."""
  sl = c.mod('sequences_lib')
  op_name, which, n, swap = (c.params['op'], c.params['field'], c.params['n'],
                             c.params['swap'])
  fields, tt = _std_fields(c, which, n)
  a = _build(c, fields, {}, tt)
  b = _build(c, fields, {which: _order(n, swap)}, tt)
  if op_name == 'quantize':
    op = lambda ns: sl.quantize_note_sequence(ns, 4)
  elif op_name == 'quantize_abs':
    op = lambda ns: sl.quantize_note_sequence_absolute(ns, 31)
  elif op_name == 'extract':
    sp = [c.real('sp%d' % i, 0) for i in range(3)]
    c.assume(c.And(sp[0] <= sp[1], sp[1] <= sp[2], sp[1] < tt))
    op = lambda ns: sl._extract_subsequences(ns, list(sp))
  elif op_name == 'split_changes':
    op = lambda ns: sl.split_note_sequence_on_time_changes(ns)
  elif op_name == 'split_silence':
    gap = c.real('gap', 0)
    op = lambda ns: sl.split_note_sequence_on_silence(ns, gap)
  elif op_name == 'sustain':
    op = sl.apply_sustain_control_changes
  elif op_name == 'transpose':
    k = c.int('k', -12, 12)
    lo, hi = c.int('lo', 0, 127), c.int('hi', 0, 127)
    # chord symbols are left out of the transposed text (covered by C10)
    for ns in (a, b):
      for ta in ns.text_annotations:
        ta.annotation_type = 0
    op = lambda ns: sl.transpose_note_sequence(ns, k, lo, hi)[0]
  elif op_name == 'stretch':
    f = c.real('f')
    c.assume(f > 0)
    op = lambda ns: sl.stretch_note_sequence(ns, f)
  ra, rb = _both(c, op, a, b)
  if ra is None:
    return
  la = ra if isinstance(ra, list) else [ra]
  lb = rb if isinstance(rb, list) else [rb]
  c.check(len(la) == len(lb), 'same number of pieces')
  for x, y in zip(la, lb):
    c.check(K.seq_bag_eq(c, x, y), 'results equal as bags of notes and events')


def h_extract_events(c):
  """Melody / DrumTrack / PianorollSequence / Performance extraction."""
  which = c.params['type']
  n, swap, S = c.params['n'], c.params['swap'], c.params['S']
  unb = which == 'performance'
  nsa, notes, tq = c07._qseq(c, n, None if unb else S, relative=which != 'performance',
                             spq=1, sps=100, pitch=(60, 62) if which != 'drums'
                             else (36, 38), unbounded=unb,
                             vel=(1, 127), instruments=(0, 0))
  if unb:
    c.assume(tq <= 2 * 3)
  # the same notes in swapped storage order
  nsb = c.pb.NoteSequence()
  nsb.CopyFrom(nsa)
  del nsb.notes[:]
  src = list(nsa.notes)
  for i in _order(n, swap):
    nsb.notes.add().CopyFrom(src[i])

  def run(ns):
    if which == 'melody':
      m = c.mod('melodies_lib').Melody()
      m.from_quantized_sequence(ns, 0, 0, 1, True, False, False)
      return (list(m), m.start_step, m.end_step)
    if which == 'drums':
      d = c.mod('drums_lib').DrumTrack()
      d.from_quantized_sequence(ns, 0, 1, False, True)
      return ([sorted(c.concretize(p) for p in e) for e in d], d.start_step,
              d.end_step)
    if which == 'pianoroll':
      r = c.mod('pianoroll_lib').PianorollSequence(
          quantized_sequence=ns, start_step=0, min_pitch=60, max_pitch=62,
          split_repeats=c.params.get('split', True))
      return (list(r), r.start_step, r.end_step)
    pl = c.mod('performance_lib')
    p = pl.Performance(ns, start_step=0, num_velocity_bins=c.params.get('bins', 4),
                       max_shift_steps=3)
    return ([(e.event_type, e.event_value) for e in p], p.start_step, p.end_step)

  ra, rb = _both(c, run, nsa, nsb)
  if ra is None:
    return
  ea, eb = ra[0], rb[0]
  c.check(len(ea) == len(eb), 'same number of events')
  if which == 'performance':
    # events of one step may legitimately be ordered differently only if the
    # extractor's own ordering key ties; it sorts by (time, pitch), so require
    # identical streams
    c.check(c.And([c.And(x[0] == y[0], c.eq(x[1], y[1]))
                   for x, y in zip(ea, eb)] or [True]), 'same event stream')
  elif which == 'melody':
    c.check(c.And([c.eq(x, y) for x, y in zip(ea, eb)] or [True]),
            'same melody events')
  else:
    c.check(ea == eb, 'same events')
  c.check(c.And(c.eq(ra[1], rb[1]), c.eq(ra[2], rb[2])), 'same step range')
  if n >= 2:
    c.cover('abutting notes of one pitch',
            c.And(c.eq(notes[0]['p'], notes[1]['p']),
                  c.eq(notes[0]['qs'], notes[1]['qe'])))


def h_chord_events(c):
  cl = c.mod('chords_lib')
  TA = c.pb.NoteSequence.TextAnnotation
  n, swap, S = c.params['n'], c.params['swap'], c.params['S']
  qs = [c.int('c%d_q' % i, 0, S) for i in range(n)]
  for i in range(n):
    for j in range(i + 1, n):
      c.assume(c.Not(c.eq(qs[i], qs[j])))

  def build(order):
    ns = c.pb.NoteSequence()
    ns.quantization_info.steps_per_quarter = 1
    ns.time_signatures.add(numerator=4, denominator=4)
    for i in order:
      ns.text_annotations.add(text=c07._FIGS[i], quantized_step=qs[i],
                              annotation_type=TA.CHORD_SYMBOL)
    return ns

  def run(ns):
    p = cl.ChordProgression()
    p.from_quantized_sequence(ns, c.params['start'], c.params['end'])
    return list(p)

  ra, rb = _both(c, run, build(_order(n, None)), build(_order(n, swap)))
  if ra is not None:
    c.check(ra == rb, 'same chord at every step')


def h_midi_export(c):
  """MIDI export: same PrettyMIDI object model for swapped storage orders."""
  mio = c.mod('midi_io')
  which, n, swap = c.params['field'], c.params['n'], c.params['swap']
  notes = _notes_spec(c, n if which == 'notes' else 1, drums=False)
  for s in notes:
    s['instrument'] = c.concretize(s['instrument'])
    s['program'] = 0
  qpms = [120.0, 60.0, 240.0]
  tts = [0] + [c.real('tp%d_t' % i) for i in range(1, n)] if which == 'tempos' \
      else [0]
  for t in tts[1:]:
    c.assume(t > 0)
  _distinct_times(c, tts)
  tempos = [dict(time=t, qpm=qpms[i]) for i, t in enumerate(tts)]
  # control changes / pitch bends on the notes' instrument (storage order
  # swapped when they are the field under test); with `drop`, events later than
  # `drop` seconds after the last note end are to be left out
  drop = c.params.get('drop')
  k_ev = n if which in ('control_changes', 'pitch_bends') else 0
  ev_t = [c.real('ev%d_t' % i, 0) for i in range(k_ev)]
  _distinct_times(c, ev_t)
  evs = [dict(time=t, instrument=notes[0]['instrument'], program=0)
         for t in ev_t]
  for i, e in enumerate(evs):
    if which == 'control_changes':
      e.update(control_number=64, control_value=c.int('ev%d_v' % i, 0, 127))
    else:
      e.update(bend=c.int('ev%d_v' % i, -8192, 8191))

  def build(order_notes, order_tempos, order_evs):
    ns = c.pb.NoteSequence()
    ns.ticks_per_quarter = 256
    for i in order_notes:
      ns.notes.add(**notes[i])
    for i in order_tempos:
      ns.tempos.add(**tempos[i])
    for i in order_evs:
      getattr(ns, which).add(**evs[i])
    return ns

  a = build(range(len(notes)), range(len(tempos)), range(k_ev))
  b = build(_order(len(notes), swap if which == 'notes' else None),
            _order(len(tempos), swap if which == 'tempos' else None),
            _order(k_ev, swap if k_ev else None))

  def run(ns):
    pm = mio.note_sequence_to_pretty_midi(
        ns, drop_events_n_seconds_after_last_note=drop)
    times, q = pm.get_tempo_changes()
    insts = []
    for ins in pm.instruments:
      insts.append((ins.program, bool(ins.is_drum),
                    [(m.pitch, m.velocity, m.start, m.end) for m in ins.notes] +
                    [(-1, cc.value, cc.time, cc.number)
                     for cc in ins.control_changes] +
                    [(-2, pb_.pitch, pb_.time, 0) for pb_ in ins.pitch_bends]))
    return list(times), list(q), list(pm._tick_scales), insts

  ra, rb = _both(c, run, a, b)
  if ra is None:
    return
  c.check(len(ra[0]) == len(rb[0]) and bool(c.And(
      [c.And(c.eq(x, y), c.approx(p, q, 1e-9))
       for x, y, p, q in zip(ra[0], rb[0], ra[1], rb[1])] or [True])),
          'same tempo map')
  c.check(len(ra[3]) == len(rb[3]), 'same number of instruments')
  for (pa, da, na), (pb_, db, nb) in zip(ra[3], rb[3]):
    c.check(pa == pb_ and da == db and bool(K.multiset_eq(
        c, na, [(True, k) for k in nb])), 'same notes, control changes and '
                                            'pitch bends per instrument')


def h_frame_roll(c):
  """sequence_to_pianoroll: same rolls for swapped note storage order."""
  sl = c.mod('sequences_lib')
  n, swap = c.params['n'], c.params['swap']
  notes = _notes_spec(c, n, pitch=(60, 61), one_instrument=True)
  tt = c.real('tt', 0)
  for s in notes:
    c.assume(s['end_time'] <= tt)
  fps = c.params['fps']
  c.assume(tt * fps < c.params['frames'])

  def build(order):
    ns = c.pb.NoteSequence()
    for i in order:
      ns.notes.add(**notes[i])
    ns.total_time = tt
    return ns

  def run(ns):
    r = sl.sequence_to_pianoroll(ns, fps, 60, 61)
    f = lambda a: [[x for x in row] for row in (
        a.tolist() if hasattr(a, 'tolist') else a)]
    return f(r.active), f(r.onsets), f(r.active_velocities)

  ra, rb = _both(c, run, build(_order(n, None)), build(_order(n, swap)))
  if ra is None:
    return
  conds = []
  for A, B in zip(ra, rb):
    if len(A) != len(B):
      c.check(False, 'same roll length')
      return
    for rowa, rowb in zip(A, B):
      for x, y in zip(rowa, rowb):
        conds.append(c.approx(x, y, 1e-6))
  # two notes of one pitch sharing a frame paint their velocity in start-time
  # order; the precondition (no overlap) leaves only the shared boundary frame
  c.check(c.And(conds or [True]), 'same active / onset / velocity rolls')


HARNESSES = {
    'h_midi_export': h_midi_export,
    'h_frame_roll': h_frame_roll,
    'h_seq_op': h_seq_op,
    'h_extract_events': h_extract_events,
    'h_quantize_extract': h_quantize_extract,
    'h_chord_events': h_chord_events,
}


def jobs(tier):
  J = []

  def add(h, budget=300, required=True, **params):
    J.append({'harness': h, 'params': params, 'budget_s': budget,
              'required': required})

  deep = tier == 'thorough'
  plan = {
      'quantize': ['notes', 'tempos', 'time_signatures', 'control_changes',
                   'text_annotations'],
      'quantize_abs': ['notes'],
      'extract': ['notes', 'tempos', 'time_signatures', 'key_signatures',
                  'control_changes', 'text_annotations'],
      'split_changes': ['tempos', 'time_signatures', 'notes'],
      'split_silence': ['notes'],
      'sustain': ['notes', 'control_changes'],
      'transpose': ['notes', 'key_signatures'],
      'stretch': ['notes', 'tempos', 'pitch_bends'],
  }
  for op, fields in plan.items():
    for f in fields:
      add('h_seq_op', op=op, field=f, n=2, swap=0,
          budget=600 if op in ('extract', 'sustain') else 300)
      if deep:
        for sw in (0, 1):
          add('h_seq_op', op=op, field=f, n=3, swap=sw, budget=2400,
              required=op not in ('extract', 'sustain', 'split_changes'))
  add('h_seq_op', op='extract', field='text_annotations', n=2, swap=0, ta_type=2)
  # three notes: two starting together (tie order = storage order) + a later one
  for sw in (0, 1):
    add('h_seq_op', op='split_silence', field='notes', n=3, swap=sw)
  for t in ('melody', 'drums', 'pianoroll', 'performance'):
    add('h_extract_events', type=t, n=2, swap=0, S=4, budget=600)
    if deep:
      for sw in (0, 1):
        add('h_extract_events', type=t, n=3, swap=sw, S=4, budget=3000,
            required=False)
      add('h_extract_events', type=t, n=2, swap=0, S=6, budget=1800)
  add('h_extract_events', type='pianoroll', n=2, swap=0, S=4, split=False)
  add('h_quantize_extract', n=2, swap=0, sps=4, bins=4, budget=900)
  add('h_quantize_extract', n=2, swap=0, sps=4, type='melody', budget=900)
  add('h_quantize_extract', n=2, swap=0, sps=4, type='pianoroll', budget=900)
  add('h_quantize_extract', n=2, swap=0, sps=4, type='drums', budget=900)
  if deep:
    for sw in (0, 1):
      add('h_quantize_extract', n=3, swap=sw, sps=4, bins=4, budget=3000)
      add('h_quantize_extract', n=3, swap=sw, sps=4, type='melody',
          budget=3000)
  add('h_midi_export', field='notes', n=2, swap=0)
  add('h_midi_export', field='tempos', n=2, swap=0)
  add('h_midi_export', field='tempos', n=3, swap=1, budget=600)
  add('h_midi_export', field='control_changes', n=2, swap=0, drop=1)
  add('h_midi_export', field='pitch_bends', n=2, swap=0, drop=None)
  add('h_frame_roll', n=2, swap=0, fps=8, frames=4, budget=600)
  if deep:
    add('h_midi_export', field='notes', n=3, swap=1, budget=1800)
    # two exports of a 3-tempo map in one query: the solver may give up
    # (C03 h_tempo_order decides the same statement functionally)
    add('h_midi_export', field='tempos', n=3, swap=1, budget=900,
        required=False)
    add('h_frame_roll', n=2, swap=0, fps=50, frames=5, budget=1800)
  add('h_chord_events', n=2, swap=0, S=4, start=0, end=4)
  add('h_chord_events', n=2, swap=0, S=5, start=1, end=4)
  if deep:
    for sw in (0, 1):
      add('h_chord_events', n=3, swap=sw, S=5, start=1, end=5, budget=1800)
  return J
