#!/bin/bash
# Creates the overlay virtualenv /verif/.venv offline (idempotent).
set -e
cd "$(dirname "$0")"
V=.venv
if [ -x $V/bin/python ] && $V/bin/python -c "import z3, google.protobuf, numpy" 2>/dev/null; then
  exit 0
fi
rm -rf $V
/venv/bin/python -m venv $V
SP=$($V/bin/python -c "import sysconfig; print(sysconfig.get_paths()['purelib'])")
echo "import site; site.addsitedir('/venv/lib/python3.12/site-packages')" > $SP/_base.pth
PIP_NO_INDEX=1 $V/bin/pip install -q --no-index --find-links /opt/veriftools/wheels z3-solver cvc5 crosshair-tool >/dev/null 2>&1 || \
PIP_NO_INDEX=1 $V/bin/pip install -q --no-index --find-links /opt/veriftools/wheels z3-solver
$V/bin/python -c "import z3; print('z3', z3.get_version_string())"
