#!/bin/bash
# usage: tools/seed_eval.sh <seed-id> <worktree> <prop> [extra vcheck args]
# Confirms the seeded change (demo fails with it, passes without; listed tests unchanged),
# stores it under /verif/seeded/<seed-id>/ and runs the property's quick check against it.
ID=$1; WT=$2; P=$3; shift 3
D=/verif/seeded/$ID
mkdir -p $D
cp $WT/seed_patch.diff $D/patch.diff
cp $WT/seed_demo.py $D/demo.py
cd $WT
git diff > /tmp/_cur.diff
if ! diff -q /tmp/_cur.diff $D/patch.diff >/dev/null; then echo "NOTE: worktree diff differs from seed_patch.diff"; fi
PYTHONPATH=$WT /venv/bin/python seed_demo.py > $D/demo_with.txt 2>&1; W=$?
git apply -R seed_patch.diff
PYTHONPATH=$WT /venv/bin/python seed_demo.py > $D/demo_without.txt 2>&1; WO=$?
git apply seed_patch.diff
echo "demo exit with change: $W ; without: $WO"
# existing tests with the change
/venv/bin/python -m pytest -q -p no:cacheprovider note_seq 2>&1 | tail -1 > $D/tests_with.txt
cat $D/tests_with.txt
cd /verif
git -C /repo apply --check $D/patch.diff || { echo "patch does not apply to /repo"; exit 9; }
if [ -n "$SEED_IN_WORKTREE" ]; then
  # same source as /repo + patch (the worktree is /repo's HEAD with the patch
  # applied); used while a long run is reading /repo itself
  NOTE_SEQ_REPO=$WT ./vcheck $P "$@" > $D/check_output.txt 2>&1; RC=$?
else
  git -C /repo apply $D/patch.diff
  ./vcheck $P "$@" > $D/check_output.txt 2>&1; RC=$?
  git -C /repo checkout -- .
fi
echo "check $P exit=$RC"
grep -E "^VIOLATION|HARNESS-ERROR" $D/check_output.txt | head -5
grep -E "label=" $D/check_output.txt | head -3 | cut -c1-220
echo "$W $WO $RC" > $D/result.txt
