#!/bin/bash
# usage: tools/seed_regress.sh [parallel-workers] [seed-id-prefix]
# Regression over the seeded changes kept under /verif/seeded/: every patch is
# applied to a scratch worktree of /repo's HEAD (never to /repo), the quick
# check of its property (the one recorded in meta.json as catching it) is run
# against that worktree with NOTE_SEQ_REPO, and the exit code is recorded in
# /tmp/seed_regress/<id>.rc (1 = still caught).  Evidence files are rewritten
# by these runs: re-run tools/run_all.sh quick on the clean tree afterwards.
W=${1:-3}
PFX=${2:-}
OUT=/tmp/seed_regress
mkdir -p $OUT
cd /verif
one() {
  id=$1
  d=/verif/seeded/$id
  prop=$(python3 -c "import json,re;m=json.load(open('$d/meta.json'));b=m.get('caught_by','');x=re.match(r'(C\d\d) ',b);print(x.group(1) if x else m['property'])")
  wt=/tmp/wt_reg_$id
  git -C /repo worktree add --detach $wt HEAD >/dev/null 2>&1
  if ! git -C $wt apply $d/patch.diff 2>/dev/null; then
    if ! git -C $wt apply --3way $d/patch.diff >/dev/null 2>&1; then
      echo "noapply" > $OUT/$id.rc
      git -C /repo worktree remove --force $wt
      return
    fi
  fi
  NOTE_SEQ_REPO=$wt ./vcheck $prop > $OUT/$id.log 2>&1
  echo "$? $prop" > $OUT/$id.rc
  git -C /repo worktree remove --force $wt
}
export -f one
export OUT
ls /verif/seeded | grep "^$PFX" | xargs -P $W -I{} bash -c 'one {}'
echo "done"
for f in $OUT/*.rc; do echo "$(basename $f .rc) $(cat $f)"; done | awk '$2!=1' | head -50
