#!/bin/bash
# usage: tools/seed_regress.sh [parallel-workers] [seed-id-prefix]
# Regression over the seeded changes kept under /verif/seeded/: every patch is
# applied to a scratch worktree of /repo's HEAD (never to /repo), the quick
# check of its property (the one recorded in meta.json as catching it) is run
# against that worktree with NOTE_SEQ_REPO, and the exit code is recorded in
# /tmp/seed_regress/<id>.rc (1 = still caught).  Evidence files are rewritten
# by these runs: re-run tools/run_all.sh quick on the clean tree afterwards.
W=${1:-3}
PFX=${2:-}
OUT=/tmp/seed_regress
mkdir -p $OUT
cd /verif
one() {
  id=$1
  d=/verif/seeded/$id
  prop=$(python3 -c "import json,re;m=json.load(open('$d/meta.json'));b=m.get('caught_by','');x=re.match(r'(C\d\d) ',b);print(x.group(1) if x else m['property'])")
  # restrict the run to the harness named first in caught_by (when it names
  # one of the property's harnesses); FULL=1 runs the whole quick check
  only=$(PYTHONPATH=/verif /venv/bin/python -c "
import json,re,importlib
m=json.load(open('$d/meta.json'))
mod=importlib.import_module('props.'+'$prop'.lower())
names=sorted(set(list(getattr(mod,'HARNESSES',{}))+list(getattr(mod,'FUNCS',{}))),key=len,reverse=True)
b=m.get('caught_by','')
hits=[(b.find(n),n) for n in names if re.search(r'(?<![A-Za-z0-9_])'+re.escape(n)+r'(?![A-Za-z0-9_])',b)]
print(min(hits)[1] if hits else '')
" 2>/dev/null)
  if [ -n "$FULL" ]; then only=""; fi
  wt=/tmp/wt_reg_$id
  git -C /repo worktree add --detach $wt HEAD >/dev/null 2>&1
  if ! git -C $wt apply $d/patch.diff 2>/dev/null; then
    if ! git -C $wt apply --3way $d/patch.diff >/dev/null 2>&1; then
      echo "noapply" > $OUT/$id.rc
      git -C /repo worktree remove --force $wt
      return
    fi
  fi
  if [ -n "$only" ]; then
    NOTE_SEQ_REPO=$wt ./vcheck $prop --only $only > $OUT/$id.log 2>&1
  else
    NOTE_SEQ_REPO=$wt ./vcheck $prop > $OUT/$id.log 2>&1
  fi
  echo "$? $prop $only" > $OUT/$id.rc
  git -C /repo worktree remove --force $wt
}
export -f one
export OUT
ls /verif/seeded | grep "^$PFX" | while read id; do [ -f $OUT/$id.rc ] || echo $id; done | xargs -P $W -I{} bash -c 'one {}'
echo "done"
for f in $OUT/*.rc; do echo "$(basename $f .rc) $(cat $f)"; done | awk '$2!=1' | head -50
