#!/bin/bash
# usage: tools/run_all.sh [quick|thorough]   -- runs every claimed check, prints a summary
cd "$(dirname "$0")/.."
TIER=${1:-quick}
for p in $(python3 -c "import json;print(' '.join(c['property_id'] for c in json.load(open('MANIFEST.json'))['checks']))"); do
  s=$(date +%s)
  out=$(./vcheck $p --tier $TIER 2>&1)
  rc=$?
  e=$(date +%s)
  echo "$p rc=$rc $((e-s))s $(echo "$out" | grep -c '^VIOLATION') violation-lines $(echo "$out" | grep -c 'KNOWN-FINDING') known"
  if [ $rc -ne 0 ]; then echo "$out" | grep -E "VIOLATION|HARNESS-ERROR" | head -5; fi
done
