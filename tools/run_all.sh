#!/bin/bash
# usage: tools/run_all.sh [quick|thorough] [properties...]
# runs every claimed check (or the listed ones), prints a summary line each.
# RUN_ALL_PAR=n runs n checks side by side (default 1).
cd "$(dirname "$0")/.."
TIER=${1:-quick}
shift
PROPS="$@"
if [ -z "$PROPS" ]; then
  PROPS=$(python3 -c "import json;print(' '.join(c['property_id'] for c in json.load(open('MANIFEST.json'))['checks']))")
fi
one() {
  p=$1
  s=$(date +%s)
  out=$(./vcheck $p --tier $TIER 2>&1)
  rc=$?
  e=$(date +%s)
  echo "$p rc=$rc $((e-s))s $(echo "$out" | grep -c '^VIOLATION') violation-lines $(echo "$out" | grep -c 'KNOWN-FINDING') known"
  if [ $rc -ne 0 ]; then echo "$out" | grep -E "VIOLATION|HARNESS-ERROR" | head -5; fi
}
export -f one
export TIER
echo $PROPS | tr ' ' '\n' | xargs -P ${RUN_ALL_PAR:-1} -I{} bash -c 'one {}'
