#!/usr/bin/env python3
"""Regenerates the table of section 10 of DESIGN.md from seeded/*/meta.json."""
import glob
import json
import os
import re

HERE = os.path.dirname(os.path.dirname(os.path.abspath(__file__)))
metas = [json.load(open(p)) for p in sorted(glob.glob(HERE + '/seeded/*/meta.json'))]
rows = ['| seeded id | property | what it needs to manifest | caught by |',
        '|-----------|----------|---------------------------|-----------|']
at_once = later = missed = 0
for m in metas:
  if not m.get('caught'):
    missed += 1
    verdict = 'MISSED'
  else:
    verdict = 'caught'
    if m.get('first_check_exit_code', 1) in (1, None) and not m.get('note'):
      at_once += 1
    else:
      later += 1
  cell = '%s — %s' % (verdict, m.get('caught_by', ''))
  if m.get('note'):
    cell += ' (%s)' % m['note']
  if m.get('rebased'):
    cell += ' [patch rebased onto the fixed tree and re-checked]'
  rows.append('| %s | %s | %s | %s |' % (m['seed_id'], m['property'],
                                        m['needs_to_manifest'], cell))
summary = ('%d changes so far: %d caught at once by the quick command, %d missed '
           '(or inconclusive) at first and caught after the check was '
           'strengthened, %d still missed.' % (len(metas), at_once, later, missed))
p = HERE + '/DESIGN.md'
s = open(p).read()
s = re.sub(r'<!-- seed-summary -->.*?<!-- /seed-summary -->',
           lambda m_: '<!-- seed-summary -->' + summary + '<!-- /seed-summary -->',
           s, flags=re.S)
s = re.sub(r'<!-- seed-table -->.*?<!-- /seed-table -->',
           lambda m_: ('<!-- seed-table -->\n' + '\n'.join(rows) +
                       '\n<!-- /seed-table -->'), s, flags=re.S)
open(p, 'w').write(s)
print(summary)
