#!/bin/bash
# usage: tools/mut.sh <Cxx> <file> <python-regex-old> <new>   (applies to /repo, runs check, reverts)
P=$1; F=$2; OLD=$3; NEW=$4; shift 4
python3 - "$F" "$OLD" "$NEW" <<'PY'
import sys,re
f,old,new=sys.argv[1:4]
p='/repo/note_seq/'+f
s=open(p).read()
assert s.count(old)>=1, 'pattern not found'
s=s.replace(old,new,1)
open(p,'w').write(s)
PY
[ $? -eq 0 ] || exit 9
cd /verif && ./vcheck $P "$@" 2>&1 | grep -E "VIOLATION|exit=|HARNESS" | head -5
git -C /repo checkout -- .
