#!/usr/bin/env python3
"""Regenerates /verif/MANIFEST.json from the props modules' META blocks."""
import importlib
import json
import os
import sys

VERIF = os.path.dirname(os.path.dirname(os.path.abspath(__file__)))
sys.path.insert(0, VERIF)

ALL = ['C%02d' % i for i in range(1, 21)]

NOT_APPLICABLE = {}

NOT_YET = ('solver-based check not built yet in this round (planned, see '
           'DESIGN.md section 8)')


def main():
  checks = []
  na = []
  engines = {}
  for pid in ALL:
    path = os.path.join(VERIF, 'props', pid.lower() + '.py')
    if pid in NOT_APPLICABLE:
      na.append({'property_id': pid, 'reason': NOT_APPLICABLE[pid]})
      continue
    if not os.path.exists(path):
      na.append({'property_id': pid, 'reason': NOT_YET})
      continue
    mod = importlib.import_module('props.' + pid.lower())
    m = mod.META
    if m.get('unclaimed'):
      na.append({'property_id': pid, 'reason': m['unclaimed']})
      continue
    level = m.get('level', 'model_checking')
    checks.append({
        'property_id': pid,
        'quick_cmd': './vcheck %s --tier quick' % pid,
        'thorough_cmd': './vcheck %s --tier thorough' % pid,
        'evidence_file': 'evidence/%s.json' % pid,
        'replay_cmd_template': './vcheck replay {path}',
        'engine': m.get('engine_name', 'symex'),
        'level_claimed': {
            'category': level,
            'text': m['level_text'],
            'design_ref': m.get('design_ref', 'DESIGN.md section 3 ' + pid),
        },
        'level_note': m['level_note'],
        'technique': m.get(
            'technique',
            'bounded symbolic execution of the real Python functions with z3 '
            '(path exploration by decision replay; every path ends in an '
            'unsat query for the negated property)'),
    })
    for e in m.get('engines', ['symex']):
      engines.setdefault(e, []).append(pid)
  eng_desc = {
      'symex': ('engine/symex.py',
                'E1: executes the real note_seq functions on proxy values '
                'carrying z3 terms; forks at every symbolic branch, replays '
                'decisions depth-first, discharges path_condition & not P per '
                'check; models protobuf/numpy/pretty_midi by pure-Python shims '
                'validated per path against the real libraries'),
      'fpk': ('engine/fpk.py',
              'E2: translates the AST of small floating-point kernels read '
              'from /repo into QF_FP / NRA queries for z3 and cvc5'),
      'crosshair': ('engine/xhair.py',
                    'E3: CrossHair 0.0.110 as an independent second engine on '
                    'integer kernels'),
  }
  manifest = {
      'version': 1,
      'setup_cmd': './bootstrap.sh',
      'hooks': {
          'guard': 'NOTE_SEQ_VERIF',
          'enable': 'no source hooks: the engine instruments note_seq at import '
                    'time inside its own process (module attributes int/float/'
                    'math/np/music_pb2 are shadowed); vcheck exports '
                    'NOTE_SEQ_VERIF=1 for its own loader only',
          'baseline_off_cmd': 'cd /repo && /venv/bin/python -m pytest -ra -q -p '
                              'no:cacheprovider --timeout=900 '
                              '--continue-on-collection-errors',
          'source_commits': [],
          'add_only': True,
      },
      'engines': [{
          'name': k,
          'path': eng_desc[k][0],
          'serves_properties': v,
          'kind_free_text': eng_desc[k][1]
      } for k, v in sorted(engines.items())],
      'checks': checks,
      'not_applicable': na,
      'notes': 'Exit codes: 0 property held on everything explored within the '
               'stated bounds; 1 reproduced violation (VIOLATION line); 3 '
               'harness error / inconclusive (never reported as success).',
  }
  with open(os.path.join(VERIF, 'MANIFEST.json'), 'w') as f:
    json.dump(manifest, f, indent=1)
  print('claimed:', [c['property_id'] for c in checks])
  print('not applicable:', [n['property_id'] for n in na])
  try:
    import jsonschema
    jsonschema.validate(manifest, json.load(open('/root/.vp/MANIFEST.schema.json')))
    print('schema ok')
  except ImportError:
    pass


if __name__ == '__main__':
  main()
